"""C14 — signals reach every connected handler exactly once per emit.

Five sub-checks share one interpreter (``run_machine``) that drives the real signal machinery and a
list model of the connections side by side (``body`` / ``bodym``, below, have a small interpreter of their own):

* ``hist``    exhaustive enumeration of bounded histories of connect / disconnect(args) /
              disconnect_by_key / emit over 2 senders x 2 signal names x 3 handlers, each handler's
              behaviour enumerated over {plain, returns True, disconnects itself, disconnects the
              previous / next handler, connects a new handler, emits recursively}.
* ``args``    exhaustive small sweep over argument shapes (0..2 weak args x 0..2 user args x 0..2
              emitted args x function/bound-method callback x module API/own Signals() x sender kind)
              and over the way the arguments are handed over: list / tuple / one-shot generator at
              connect (a list is afterwards left alone, extended or emptied by the caller) x list /
              tuple / generator at disconnect(args); every connection is emitted to several times; the same
              callback + arguments connected twice and three times (another handler in between), then
              disconnect(args) once per connection, each followed by emits: one connection less every time.
              The other documented spellings of "connect" belong to the same sweep: the legacy positional
              ``connect_signal(obj, name, callback, user_arg)`` (every value of user_arg in {0, False, "", [],
              0.0, "x", 9} x the shapes of the other arguments; undone with ``disconnect_signal(obj, name,
              callback, user_arg)``) and the constructor shorthand of Button / CheckBox / RadioButton
              (``on_press`` / ``on_state_change`` [+ ``user_data``], undone the way their docstrings say; also
              with the constructor's connection repeated exactly by a connect_signal() call).
* ``reg``     "registered for the sender's class": every spelling of the registration (``signals`` class
              attribute on a MetaSignals class, a subclass, a third-level subclass, a list subclass, widget
              subclasses; explicit ``register_signal(cls, names)`` after the class definition for a plain class
              and for Widget subclasses, which the metaclass has registered before) x every sequence of <= 2
              further ``register`` calls for the class (same names / one more / first only / second only /
              none; list / tuple / frozenset): after each, a connect is accepted exactly for the names of
              the latest registration; connections made before go on being served.
* ``moment``  "weak arguments are garbage-collected at any moment": one operation (connect to the
              same / another name / another sender / an unregistered name, disconnect(args) of the
              first / middle / last / an unconnected handler, disconnect_by_key likewise, emit) on a
              slot holding three connections x every source line of urwid/signals.py the operation
              executes (sys.settrace line events, counted on the tree under test) x the weak argument
              that dies at that line (of the first / middle / last connection, of the one being
              connected).  Later emits, connects and disconnects judge the result.
* ``machine`` Hypothesis op lists (<= 25 ops) with parametrised handler behaviours, duplicate
              connections (disconnected by key or, one at a time, by their arguments), per-connection tags,
              ``del weak_arg; gc.collect()`` at generated points
              (top level, inside handlers, i.e. collection mid-emit, and - op ``arm`` - at the k-th
              line of signals.py executed by the next operation), sender drops, no-op disconnects,
              unregistered-name connects, list / tuple / generator argument containers per handler,
              legacy user_arg per handler, widgets built with the constructor shorthand (rebuilt after a
              sender drop), ``reg`` (register the sender's class again), ``p`` (the Button emits by itself:
              keypress "enter"), ``dc`` (disconnect the constructor's connection by its arguments).

* ``body``    the connections urwid's widgets make for themselves (anchor urwid/widget/listbox.py): a ListBox is a
              handler of its body's "modified" signal.  ``ListBox(walker)`` / ``listbox.body = walker`` is a
              connect of the box to the walker and a disconnect from the body it had before.  Every history of
              length 3 / 4 [thorough: 3..5] over {hand walker w to box b (the one it has, another one, one it
              had earlier, one another box uses), build another box on w, give a plain list (empty / two
              widgets) as the body, connect / disconnect the application's own handler on w} x 2 box slots x 3
              walkers of kinds {SimpleListWalker, SimpleFocusListWalker, a ListWalker subclass of the
              application, each empty (false) or not, a walker without a "modified" signal}; after every step
              every walker sends "modified" (emit_signal, its own _modified(), a change through its public
              interface) and the calls - boxes, a sentinel handler, the application's handler - are compared
              with the model; at the end everything is dropped and every walker has to die.
              ``bodym``: the same with Hypothesis, <= 20 steps, 1-3 box slots, 1-4 + generated walkers.

Oracle (per emit "frame", nested emits are frames of their own):
  S = model list of the slot when the emit starts; a connection is *touched* if it is removed
  (disconnect or death of a weak argument) at any time while the frame is active, *added* if it is
  connected to the slot while the frame is active.  T = S minus touched = "connected throughout".
  - the calls made by this frame, restricted to the signatures of T, are exactly T in order, once each
  - every call's arguments are weak_args + user_args + emitted args of some connection in S or added
    (+ the legacy user_arg / user_data of that connection after the emitted arguments, where the docstring
    of connect_signal puts it)
  - a callback that is neither in S nor added (disconnected before the emit, other slot, never
    connected) is not called
  - bool(result) == any(bool(r) for r in returns of the handlers this frame ran)
  Nothing is asserted about touched / added connections (the statement is silent): when an untouched
  connection has the same signature (callback + arguments) as a touched or added one, that signature is
  left out of the once/in-order comparison as well (calls cannot be attributed).
body / bodym: per emit of walker w the calls are exactly the model's connections of w, in connection order, once
  each (a change of the walker through its list interface may emit several times: the sentinel handler, connected
  by the harness with connect_signal, counts the emits k >= 1 and the calls must be k repetitions).  A box
  whose body is handed to it again stays connected once; its place in the order is then not judged.
connect: accepted if the name is in the latest list registered for the sender's class, NameError otherwise.
No-op disconnects are performed on the real object only (model unchanged) and judged by later emits.
disconnect(args) on a slot where k >= 2 connections carry the same callback and arguments ("will remove a
  callback from the list"): one connection less, k - 1 stay connected - every later emit must call that
  callback + arguments exactly k - 1 times (untouched, nothing equal added meanwhile).  The docs do not say
  which of the k is removed, so from then on the place of these calls among the others is not judged and the
  keys of the k connections are not used any more (until none of them is left).  An emit in progress during
  such a disconnect may have lost any of them: all k count as touched.
"""
from __future__ import annotations

import gc
import sys
import warnings
import weakref

from hypothesis import strategies as st

import urwid
from urwid import signals as usignals
from vlib.runner import Discard, Violation

PROPERTY = "C14"
LEVEL = "exploration"
RULE = (
    "hist: every history (canonical up to renaming of senders, names and handlers; last op an emit) of "
    "length <= 4 over 2 senders x 2 names x 3 handlers plus every history of length 5 on one sender x 2 "
    "names [thorough: <= 5 on 2x2x3 plus length 6 on one sender x one name] of connect / disconnect(args) / "
    "disconnect_by_key / emit, times every assignment of the 7 behaviours {plain, returns True, "
    "disconnects itself, disconnects previous, disconnects next, connects a new handler, emits "
    "recursively} to the handlers that get connected (a handler connected several times to a slot makes equal "
    "connections; disconnect(args) then takes one of them; handler 1 hands its arguments over as one-shot "
    "generators, handler 2 as a list it extends afterwards and disconnects with a tuple); args: all argument shapes (weak 0-2 x user 0-2 x "
    "emitted 0-2 x func/method x API x 11 sender kinds) plus all ways of handing the arguments over "
    "(connect with list / list extended afterwards / list emptied afterwards / tuple / one-shot generator x "
    "disconnect(args) with list / tuple / generator x weak 0-2 x user 0-2 x func/method), each history holding "
    "the same callback + arguments connected 2 and 3 times and disconnected by arguments one at a time down to "
    "none (+ one no-op) with emits in between, plus the legacy "
    "positional user_arg (7 values, 5 of them false but not None, x weak 0-1 x user 0-2 x emitted 0-2 x "
    "func/method x API) plus the constructor shorthand of Button (2 subclasses) / CheckBox / RadioButton "
    "(no user_data and the 7 values x func/method x the later connect_signal() calls add a user argument / repeat "
    "the constructor's connection exactly; emits by emit_signal and, for buttons, by keypress; "
    "disconnect_signal(widget, name, callback [, user_data]); widget dropped and rebuilt); reg: 11 sender "
    "kinds (signals attribute at level 1 / 2 / 3 of a hierarchy, list subclass, widget subclasses, "
    "register_signal() after the definition of a plain class / a WidgetWrap subclass / a Button subclass) "
    "x API x every sequence of <= 2 further register() calls (5 name lists) x list / tuple / frozenset, "
    "each followed by connects to 3 names on 2 senders and emits; moment: 14 "
    "operations (connect same slot / other name / other sender / unregistered, disconnect(args) first / "
    "middle / last / unconnected, disconnect_by_key first / middle / last / other name, emit same / other "
    "name) on a slot with three connections x every line of urwid/signals.py the operation executes "
    "(line events of sys.settrace, counted per operation on the tree under test) x which of 4 weak "
    "arguments loses its last reference (+ gc.collect()) at that line x API x 3 sender kinds, followed by "
    "emits, a further connect and disconnects; body: every history of exactly 3 steps x 4 sets of walker kinds "
    "plus every history of exactly 4 steps with the sets in turn [thorough: 3 and 4 x 4 sets, 5 in turn] over the "
    "19 steps {listbox_b.body = walker_w (a box is built on it when the slot is empty), build another ListBox on "
    "walker_w in slot b, listbox_b.body = plain list of 0 / 2 widgets, connect-or-disconnect the application's "
    "handler on walker_w} for 2 box slots x 3 walkers (SimpleListWalker / SimpleFocusListWalker / own ListWalker "
    "subclass, each with two items or empty = false, and a walker class without signals); before the first and "
    "after every step every walker seen so far sends 'modified' (in turn: emit_signal, _modified(), append, "
    "delete, set_focus / grow) and the calls received by the boxes (their _invalidate), the sentinel and the "
    "application's handler are compared with the model; finally all boxes and walkers are dropped and every "
    "walker must be dead after gc.collect(); bodym: Hypothesis, 2-20 such steps, 1-3 box slots, 1-4 walkers of "
    "the 7 kinds (plus the walkers boxes make from plain lists); machine: Hypothesis op lists <= 25 ops over 2 "
    "senders (11 kinds, widgets optionally built with the constructor shorthand) x 2 names (+ a third, "
    "normally unregistered one) x 3-5 parametrised handlers (argument container list / tuple / generator, "
    "list mutated after connect, legacy user_arg) with register-again, emit-by-keypress, weak-argument drops + gc.collect() at top level, inside handlers and "
    "('arm') at the k-th signals.py line of the next operation, sender drops, duplicates (disconnected by key or "
    "by their arguments, at top level and from inside handlers), no-op disconnects, "
    "unregistered names. "
    "Non-trivial: the history contains an emit on a slot to which a handler that changes the handler "
    "list (disconnect / connect / weak-argument drop) has been connected, or a weak argument is dropped "
    "(static rule); body: at least two steps give a box a body (a connection is replaced, shared or repeated); "
    "the classes dyn:* count emits during which the list really changed / an argument died and, for body, "
    "same-walker-assigned-again / walker-replaced / earlier-walker-brought-back / walker-shared-by-boxes."
)
ASSUMPTIONS = [
    "the harness's own model of which connection a call belongs to uses the callback identity and the "
    "received arguments (signature); equal signatures are not distinguished",
    "gc.collect() collects every unreachable object (CPython); the harness keeps only labels of weak "
    "arguments in its logs",
    "disconnect(args) on a slot holding k >= 2 connections with identical callback and arguments removes exactly "
    "one of them (docstring: 'will remove a callback from the list'; connect and disconnect pair off); which one "
    "the docs do not say, so afterwards only the number of calls with that callback + arguments per emit (k - 1) "
    "is judged, not their place among the other handlers' calls, and the keys of those k connections are not "
    "passed to disconnect_by_key any more; when the k connections differ in the type of a legacy user_arg only "
    "(0 / False / 0.0) the disconnect is made by key instead",
    "callbacks do not raise",
    "the deprecated positional user_arg of connect_signal / disconnect_signal and the on_press / on_state_change "
    "[, user_data] constructor arguments of Button, CheckBox and RadioButton are documented, still supported "
    "spellings of connect: they are generated; their argument is expected where the docstring of connect_signal "
    "puts it ('appended after the arguments passed when the signal is emitted'; None = no argument), compared "
    "by type and repr; disconnect(args) treats 0 / False / 0.0 as the same argument (urwid compares with ==), so "
    "it is not generated when two connections differ only in that; the DeprecationWarning is filtered",
    "register_signal(cls, names) may be called again for a class (for a Widget subclass the documented explicit "
    "call always is a second registration, the metaclass having made the first): the latest list is 'the names "
    "registered for the class'; connections made under an earlier list stay connected (nothing in the text "
    "disconnects them); such histories use classes built for the case, which the harness afterwards removes "
    "from the module-level Signals object's private _supported dict (housekeeping only)",
    "a rejected connect raises NameError; where a widget constructor makes the connect before the widget is "
    "complete (CheckBox, RadioButton) AttributeError from formatting the message counts as rejection too",
    "widgets built with the constructor shorthand are only used with the module-level API (their constructors "
    "call it); a Button 'pressed' is keypress((10,), 'enter'), whose emit result cannot be observed",
    "handlers connected from inside a handler are connected to handlers that cannot connect further "
    "handlers to the slot being emitted without bound (target index strictly larger), recursion depth "
    "<= 2, so every history terminates; a history making more than 400 callback calls is discarded",
    "weak_args / user_args are documented and annotated as iterables: lists, tuples and one-shot generators "
    "are passed; the items, not the container, are 'the arguments given at connect time', so a list the "
    "caller changes after connect_signal() returned does not change the connection, a generator-connected "
    "handler gets its arguments on every emit, and disconnect(args) may be given another kind of iterable "
    "with the same items",
    "'garbage-collected at any moment' is modelled at the granularity of executed source lines of "
    "urwid/signals.py (sys.settrace line events, including the backward jumps of its loops, where CPython "
    ">= 3.12 actually runs the collector): moments inside one line are not reached; the death is produced "
    "by dropping the harness's only strong reference (+ gc.collect()), not by the cyclic collector itself",
    "body: a ListBox is 'a handler connected' to the 'modified' signal of the walker that is its body, from the "
    "moment it is built on it / the walker is assigned to listbox.body until another body is assigned (docstrings "
    "of SimpleListWalker / SimpleFocusListWalker: changes 'will cause ListBox objects using this list walker to be "
    "updated'; listbox.py is an anchor of the property); assigning the walker it already has leaves it connected "
    "once - whether at its old place or as the last handler is not judged; a box the application lets go of "
    "stays connected (nothing disconnects it)",
    "body: the box's handler is observed by a ListBox subclass that overrides _invalidate() (reports, then calls "
    "the base method); calls outside an emit of a walker are the box's own and ignored; one emit_signal(walker, "
    "'modified') and one walker._modified() are one emit, a list operation / set_focus on a walker is at least "
    "one emit, counted by a sentinel handler the harness connects with connect_signal when the walker appears "
    "(the plain signal machinery is judged by the other sub-checks)",
    "body: a walker without a 'modified' signal (an object with get_focus / get_next / get_prev / set_focus whose "
    "class registers no signals) is a valid body (the body setter provides for it); connecting the application's "
    "handler to it must raise NameError, emit_signal on it calls nothing",
    "the known-finding predicate for C14-disconnect-iterates-live-list reads the parameters obj / name of the "
    "interrupted disconnect / disconnect_by_key frame (diagnosis only, never the oracle)",
]

_CTX = None  # set by shard(): dynamic class counters


def _count(label):
    if _CTX is not None:
        _CTX.count(label)


# ---------------------------------------------------------------------------------------------
# senders, weak arguments


class W:
    """a weakly referenced argument"""

    __slots__ = ("__weakref__", "label")

    def __init__(self, label):
        self.label = label


class WEmpty(W):
    """a weakly referenced argument that is alive but falsy (like an empty MonitoredList / list walker, the
    typical weak argument in urwid's own widgets): liveness, not truth, decides whether a handler runs"""

    __slots__ = ()

    def __len__(self):
        return 0


class Unregistered:
    pass


EXTRA = "zz"  # a third name: not registered for any class unless a later register_signal() call adds it


def _build(kind, fresh=False, created=None):
    """(sender class, the two signal names used for slots, the list of names registered for the class).

    Every documented spelling of "these are the signals of my class" is a kind: the ``signals`` class
    attribute handled by MetaSignals / the widget metaclass, and the explicit ``register_signal(cls, names)``
    call after the class definition (docs/manual/widgets.rst: the attribute "is equivalent to calling
    register_signal ... after the class definition"; for a Widget subclass the metaclass has registered the
    class before, so there the explicit call is always a second registration of the class).
    ``fresh``: classes of this case only (histories that register again must not leak into other cases)."""
    made = []
    if kind == "meta":

        class SenderMeta(metaclass=urwid.MetaSignals):
            signals = ["a", "b"]  # noqa: RUF012

        made.append(SenderMeta)
        out = (SenderMeta, ("a", "b"), ["a", "b"])
    elif kind == "reg":

        class SenderReg:
            pass

        urwid.register_signal(SenderReg, ["a", "b"])
        made.append(SenderReg)
        out = (SenderReg, ("a", "b"), ["a", "b"])
    elif kind == "sub":
        base = _build("meta", fresh, made)[0]

        class SenderSub(base):
            signals = ["c"]  # noqa: RUF012   "a", "b" are inherited through the metaclass

        made.append(SenderSub)
        out = (SenderSub, ("a", "c"), ["c", "a", "b"])
    elif kind == "sub3":
        base = _build("sub", fresh, made)[0]

        class SenderLeaf(base):
            signals = ["d"]  # noqa: RUF012   third level: "c" and, through the middle class, "a", "b" are inherited

        made.append(SenderLeaf)
        out = (SenderLeaf, ("a", "d"), ["d", "c", "a", "b"])
    elif kind == "list":

        class SenderList(list, metaclass=urwid.MetaSignals):
            """an (empty, hence falsy) list that sends signals, like SimpleListWalker"""

            signals = ["a", "b"]  # noqa: RUF012

        made.append(SenderList)
        out = (SenderList, ("a", "b"), ["a", "b"])
    elif kind == "lwid":

        class SenderWrap(urwid.WidgetWrap):
            """a widget class that declares its signals the old way, after the class definition"""

            def __init__(self):
                super().__init__(urwid.Text(""))

        urwid.register_signal(SenderWrap, ["a", "b"])
        made.append(SenderWrap)
        out = (SenderWrap, ("a", "b"), ["a", "b"])
    elif kind == "button":

        class SenderButton(urwid.Button):
            signals = ["aux"]  # noqa: RUF012   "click" is inherited

        made.append(SenderButton)
        out = (SenderButton, ("click", "aux"), ["aux", "click"])
    elif kind == "lbtn":

        class SenderLButton(urwid.Button):
            pass

        urwid.register_signal(SenderLButton, ["click", "aux"])
        made.append(SenderLButton)
        out = (SenderLButton, ("click", "aux"), ["click", "aux"])
    else:
        base = {"edit": urwid.Edit, "checkbox": urwid.CheckBox, "radio": urwid.RadioButton}[kind]
        if fresh:
            base = type("Sender" + base.__name__, (base,), {})  # inherits the names through the metaclass
            made.append(base)
        out = (base, ("change", "postchange"), ["change", "postchange"])
    if created is not None:
        created.extend(made)
    return out


KIND_NAMES = ["meta", "reg", "sub", "sub3", "list", "edit", "lwid", "button", "lbtn", "checkbox", "radio"]
KINDS = {kind: _build(kind) for kind in KIND_NAMES}
# widgets whose constructor is a documented shorthand for connect_signal(widget, <first name>, callback, user_data)
CTOR_KINDS = ("button", "lbtn", "checkbox", "radio")
BUTTON_KINDS = ("button", "lbtn")
# values of the legacy positional user_arg / user_data: "If None no arguments will be added" - every other
# value is an argument, in particular the ones that are false (0 is the first entry of every enumerate() menu)
UARGS = [0, False, "", [], 0.0, "x", 9]
REG_CONTS = ("list", "tuple", "frozenset")  # register(sig_cls, signals: Container[Hashable])
warnings.filterwarnings("ignore", message="Don't use user_arg argument", category=DeprecationWarning)
CALL_LIMIT = 400
MAX_DEPTH = 2
# weak_args / user_args are documented (and annotated) as iterables: the kinds of iterable handed over
CONTS = ("list", "tuple", "iter")
SIGNALS_FILE = usignals.Signals.emit.__code__.co_filename


def _container(kind, items):
    """``items`` (a fresh list) as the iterable given to urwid; "iter" is a one-shot generator"""
    if kind == "tuple":
        return tuple(items)
    if kind == "iter":
        return (x for x in items)
    return items


class Injector:
    """'a weak argument is garbage-collected at any moment': at the k-th source line of urwid/signals.py
    executed (at any nesting depth) while one top-level operation runs, the harness lets go of one weak
    argument and runs gc.collect().  Line events of sys.settrace; only frames of signals.py are traced."""

    def __init__(self, state, k, j):
        self.state, self.k, self.j, self.n, self.fired = state, k, j, 0, False

    def global_trace(self, frame, event, arg):
        if frame.f_code.co_filename == SIGNALS_FILE:
            return self.local_trace
        return None

    def local_trace(self, frame, event, arg):
        if event == "line":
            n, self.n = self.n, self.n + 1
            if n == self.k and not self.fired:
                self.fired = True
                self.state.drop_weak_injected(self.j, frame)
        return self.local_trace


def _uval(v):
    """the legacy argument as handed to urwid (a fresh object every time for the mutable one)"""
    return list(v) if isinstance(v, list) else v


def _tok(a):
    """a received argument as a hashable, printable token"""
    if isinstance(a, W):
        return ("W", a.label)
    if a is None or type(a) in (str, int):
        return a
    return ("?", type(a).__name__, repr(a))


def _ua_sig(v):
    return ("UA", type(v).__name__, repr(v))


def _ua_loose(ua):
    """what disconnect(args) can tell apart: urwid compares with ==, and 0 == False == 0.0"""
    if ua is None:
        return None
    v = ua[0]
    return ("n", float(v)) if isinstance(v, (bool, int, float)) else ("r", repr(v))


def _nx(n, x):
    """the other of the two names of a sender (the third name has no partner)"""
    return n ^ x if n < 2 else n


def _make_sender(kind, cls, cb=None, ua=None):
    """``cb`` given: the constructor shorthand "on_press / on_state_change [, user_data]" of the widget"""
    if kind in BUTTON_KINDS:
        args = [""]
    elif kind == "checkbox":
        args = ["", False, False] if cb is not None else [""]
    elif kind == "radio":
        args = [[], "", False]  # the group list is the harness's and goes away with this call
    elif kind == "edit":
        args = [""]
    else:
        args = []
    if cb is not None:
        args.append(cb)
        if ua is not None:
            args.append(_uval(ua[0]))
    return cls(*args)


class HObj:
    """handler given to connect as a bound method (a fresh but equal object every time)"""

    __slots__ = ("h", "st")

    def __init__(self, state, h):
        self.st, self.h = state, h

    def call(self, *args):
        return self.st.called(self.h, args)


class Conn:
    __slots__ = ("cid", "dsig", "h", "key", "plain", "sig", "slot", "ua", "uargs", "widx", "wk")


class Frame:
    __slots__ = ("S", "added", "calls", "cur", "depth", "eargs", "events", "ok", "rets", "seen", "slot", "touched")


class State:
    def __init__(self, case):
        self.case = case
        self.hspecs = case["handlers"]
        self.kinds = case["senders"]
        # histories that register a class again work on classes of their own
        fresh = any(op[0] == "reg" for op in case["ops"])
        self.created = []
        self.cls = {k: (_build(k, True, self.created) if fresh else KINDS[k]) for k in dict.fromkeys(self.kinds)}
        self.registered = {k: set(info[2]) for k, info in self.cls.items()}  # model: names registered per class
        if case["api"] == "instance":
            sig = usignals.Signals()
            for cls, _names, reglist in self.cls.values():
                sig.register(cls, list(reglist))
            self.connect, self.disconnect, self.register = sig.connect, sig.disconnect, sig.register
            self.disconnect_by_key, self.emit = sig.disconnect_by_key, sig.emit
            self.ctor = [None] * len(self.kinds)  # the widgets' constructors use the module-level functions
        else:
            self.connect, self.disconnect = urwid.connect_signal, urwid.disconnect_signal
            self.disconnect_by_key, self.emit = urwid.disconnect_signal_by_key, urwid.emit_signal
            self.register = urwid.register_signal
            self.ctor = list(case.get("ctor") or [None] * len(self.kinds))
        self.senders = [None] * len(self.kinds)
        self.ctor_conn = [None] * len(self.kinds)
        self.sgen = [0] * len(self.senders)
        self.model = {}  # (s, n) -> [Conn]
        self.gone_sigs = {}  # (s, n) -> set of signatures disconnected / dead (diagnosis only)
        self.frames = []
        self.keys = []  # (slot, sender generation, key)
        nw = 1 + max([k for hs in self.hspecs for k in hs["weak"]], default=-1)
        self.pool = [None] * nw
        self.wgen = [0] * nw
        self.wrefs = [None] * nw
        self.inuse = {}
        self.pending = []
        self.ncalls = 0
        self.ncid = 0
        self.deferred = None
        self.unraisable = []
        self.armed = None  # (k, j): injection for the next top-level op
        self.trace_lines = 0  # line events of signals.py seen during the last op run under an Injector
        self.injected = []  # (label, "function:lineno") of the injections that fired
        self.tainted = set()  # slots on which disconnect / disconnect_by_key was interrupted by such a death
        # slot -> signatures of which one of several equal connections was disconnected by arguments: how many
        # are connected is known, where they stand in the connection order is not
        self.floating = {}
        self.cbs = []
        for h, hs in enumerate(self.hspecs):
            if hs.get("method"):
                self.cbs.append(HObj(self, h))
            else:
                self.cbs.append(self._make_func(h))
        for s in range(len(self.senders)):
            self.new_sender(s)

    def new_sender(self, s):
        """a new sender object; a widget may be built with the constructor shorthand, which is a connection"""
        kind = self.kinds[s]
        spec = self.ctor[s] if kind in CTOR_KINDS else None
        if spec is None:
            self.senders[s] = _make_sender(kind, self.cls[kind][0])
            self.ctor_conn[s] = None
            return
        h = spec[0] % len(self.hspecs)
        ua = None if spec[1] is None else (spec[1],)
        if self.name(s, 0) not in self.registered[kind]:
            # the class has been registered again without the name the shorthand connects to: rejected like
            # any other connect (the widget is then built without the shorthand)
            # "rejected" = an exception: CheckBox / RadioButton connect before the widget is complete, and the
            # NameError message wants the repr of that half-built widget, which raises AttributeError instead
            try:
                _make_sender(kind, self.cls[kind][0], self.callback(h), ua)
            except (NameError, AttributeError):
                _count("dyn:unregistered-connect-rejected")
            else:
                raise Violation(
                    "unregistered-name-rejected",
                    f"{self.cls[kind][0].__name__}(..., callback) connected to {self.name(s, 0)!r}; the names "
                    f"registered for the class are {sorted(self.registered[kind])}",
                )
            self.senders[s] = _make_sender(kind, self.cls[kind][0])
            self.ctor_conn[s] = None
            return
        self.senders[s] = _make_sender(kind, self.cls[kind][0], self.callback(h), ua)
        self.ctor_conn[s] = self.new_conn(h, (s, 0), None, (), (), (), ua, False)
        _count("dyn:connected-by-constructor")

    def new_conn(self, h, slot, key, wk, widx, uargs, ua, plain):
        c = Conn()
        c.cid, self.ncid = self.ncid, self.ncid + 1
        c.h, c.slot, c.key, c.wk, c.widx, c.uargs, c.ua, c.plain = h, slot, key, wk, widx, uargs, ua, plain
        c.sig = (h, *(("W", lbl) for lbl in wk), *uargs, *(() if ua is None else (_ua_sig(ua[0]),)))
        c.dsig = (h, wk, uargs, _ua_loose(ua))
        self.model_add(c)
        return c

    def _make_func(self, h):
        def cb(*args):
            return self.called(h, args)

        return cb

    def callback(self, h):
        cb = self.cbs[h]
        return cb.call if type(cb) is HObj else cb

    # ---- weak arguments ---------------------------------------------------------------------
    def weak_obj(self, k):
        o = self.pool[k]
        if o is None:
            self.wgen[k] += 1
            label = f"w{k}.{self.wgen[k]}"
            o = (WEmpty if k % 2 else W)(label)
            self.pool[k] = o
            # registered before any of urwid's weakrefs; only does model bookkeeping
            self.wrefs[k] = weakref.ref(o, lambda _r, label=label: self.on_death(label))
        return o

    def on_death(self, label):
        died = False
        for lst in list(self.model.values()):
            for c in [c for c in lst if label in c.wk]:
                self.model_remove(c)
                died = True
        if died and self.frames:
            _count("dyn:weak-arg-died-during-emit")

    def drop_weak(self, k):
        """del weak_arg; gc.collect() — the harness's only strong reference goes away"""
        o = self.pool[k]
        if o is None:
            return
        label, ref = o.label, self.wrefs[k]
        self.pool[k] = None
        del o
        gc.collect()
        if ref() is not None:
            if self.inuse.get(label, 0) > 0:
                # still an argument of a handler call in progress: must die when that call is over
                self.pending.append((label, ref))
            else:
                raise Violation(
                    "weak-arg-not-kept-alive",
                    f"weak argument {label} is still alive after del + gc.collect() "
                    f"(connections: {self.describe()})",
                )

    def drop_weak_injected(self, j, frame):
        """called from the trace function, i.e. from the middle of one of urwid's signal functions: the
        j-th (modulo) live weak argument loses its only strong reference of the harness.  The function
        interrupted (or the harness frame that called it) may itself hold the object as an argument of
        the call in progress; then it has to be dead when the top-level operation is over."""
        alive = [k for k, o in enumerate(self.pool) if o is not None]
        if not alive:
            return
        k = alive[j % len(alive)]
        o = self.pool[k]
        label, ref = o.label, self.wrefs[k]
        self.pool[k] = None
        fname = frame.f_code.co_name
        where = f"{fname}:{frame.f_lineno}"
        self.injected.append((label, where))
        if fname in ("disconnect", "disconnect_by_key"):
            # diagnosis only (known finding C14-disconnect-iterates-live-list): the slot whose handler list
            # the interrupted function is working on, if the dying argument belongs to a connection of it
            loc = frame.f_locals
            obj, name = loc.get("obj"), loc.get("name")
            for slot, lst in self.model.items():
                if self.senders[slot[0]] is obj and self.name(*slot) == name and any(label in c.wk for c in lst):
                    self.tainted.add(slot)
            del loc, obj
        _count("dyn:weak-arg-died-inside-signal-function")
        _count("dyn:died-in:" + where.split(":")[0])
        del o
        gc.collect()
        if ref() is not None:
            self.pending.append((label, ref))

    def end_of_top_level_op(self):
        if self.pending:
            gc.collect()
            for label, ref in self.pending:
                if ref() is not None:
                    raise Violation(
                        "weak-arg-not-kept-alive",
                        f"weak argument {label}, dropped inside a handler, is still alive after the emit "
                        f"returned and gc.collect() ran",
                    )
            self.pending = []
        if self.unraisable:
            raise Violation("exception-in-weakref-callback", self.unraisable[0])

    # ---- model --------------------------------------------------------------------------------
    def describe(self):
        return {f"{s}{n}": [list(c.sig) for c in lst] for (s, n), lst in self.model.items() if lst}

    def model_add(self, conn):
        self.model.setdefault(conn.slot, []).append(conn)
        for fr in self.frames:
            if fr.slot == conn.slot:
                fr.added.append(conn)
                fr.ok.add(conn.sig)

    def model_remove(self, conn):
        lst = self.model[conn.slot]
        pos = next(i for i, c in enumerate(lst) if c is conn)
        for fr in self.frames:
            fr.touched.add(conn.cid)
            if fr.slot == conn.slot:
                cur = next((i for i, c in enumerate(lst) if c is fr.cur), None)
                fr.events.append((pos, cur, [c.cid for c in lst[pos + 1 :]]))
        del lst[pos]
        if not any(c.sig == conn.sig for c in lst):
            self.floating.get(conn.slot, set()).discard(conn.sig)  # connected afresh, its place is known again
        self.gone_sigs.setdefault(conn.slot, set()).add(conn.sig)
        if self.frames:
            _count("dyn:removed-during-emit")

    def name(self, s, n):
        return self.cls[self.kinds[s]][1][n] if n < 2 else EXTRA

    def args_available(self, conn):
        return all(self.pool[k] is not None and self.pool[k].label == lbl for k, lbl in zip(conn.widx, conn.wk))

    def weak_objs_of(self, conn):
        return [self.pool[k] for k in conn.widx]

    # ---- operations (real + model) -----------------------------------------------------------
    def do_connect(self, s, n, h, tag):
        hs = self.hspecs[h]
        wobjs = [self.weak_obj(k) for k in hs["weak"]]
        uargs = list(hs["uargs"])
        if tag:
            uargs.append(f"#{self.ncid}")
        cont, mut = hs.get("cont", "list"), hs.get("mut", 0)
        ua = None if hs.get("uarg") is None else (hs["uarg"],)
        kw, passed = {}, []
        if wobjs:
            passed.append(list(wobjs))
            kw["weak_args"] = _container(cont, passed[-1])
        if uargs:
            passed.append(list(uargs))
            kw["user_args"] = _container(cont, passed[-1])
        # the legacy spelling connect_signal(obj, name, callback, user_arg) (deprecated, documented; it is what
        # the Button / CheckBox docstrings tell the reader to write)
        pos = () if ua is None else (_uval(ua[0]),)
        name = self.name(s, n)
        registered = name in self.registered[self.kinds[s]]
        try:
            key = self.connect(self.senders[s], name, self.callback(h), *pos, **kw)
        except NameError as e:
            if registered:
                raise Violation(
                    "registered-name-accepted",
                    f"connect({type(self.senders[s]).__name__}, {name!r}) raised NameError ({e}) although the names "
                    f"registered for the class are {sorted(self.registered[self.kinds[s]])}",
                ) from None
            _count("dyn:unregistered-connect-rejected")
            return None
        if not registered:
            raise Violation(
                "unregistered-name-rejected",
                f"connect({type(self.senders[s]).__name__}, {name!r}) did not raise NameError; the names registered "
                f"for the class are {sorted(self.registered[self.kinds[s]])}",
            )
        if mut:
            # the caller goes on using the lists it built: the connection keeps "the arguments given at
            # connect time" (with tuple / generator there is nothing to change afterwards)
            for lst in passed:
                if mut == 1:
                    lst.append("late")
                else:
                    lst.clear()
        del passed
        self.keys.append(((s, n), self.sgen[s], key))
        c = self.new_conn(h, (s, n), key, tuple(w.label for w in wobjs), tuple(hs["weak"]), tuple(uargs), ua, not tag)
        # only now: a weak argument the harness let go of while connect() was running (Injector) dies here
        del wobjs
        return c

    def do_disconnect_conn(self, conn, via):
        """disconnect a connection of the model: by its key, or by its arguments.  disconnect(args) "will remove a
        callback from the list" - one; among several connections made with the same callback and arguments the
        docs do not say which (see _disconnect_one_of_equal)"""
        s, n = conn.slot
        lst = self.model.get(conn.slot, [])
        connected = any(c is conn for c in lst)
        group = [c for c in lst if c.dsig == conn.dsig]  # what disconnect(args) cannot tell apart
        if via == "key" and conn.key is None:
            via = "args"  # connected by a widget's constructor (or its key is not known any more): there is no key
        if via == "args" and (
            any(c.sig != conn.sig for c in group)  # connections that differ in 0 / False / 0.0 only: not generated
            or not self.args_available(conn)  # the weak arguments cannot be supplied any more
        ):
            if conn.key is None:
                _count("dyn:disconnect-not-performed")
                return
            via = "key"
            _count("dyn:args-disconnect-replaced-by-key")
        if via == "args":
            kw = {}
            dcont = self.hspecs[conn.h].get("dcont", "list")
            if conn.wk:
                kw["weak_args"] = _container(dcont, self.weak_objs_of(conn))
            if conn.uargs:
                kw["user_args"] = _container(dcont, list(conn.uargs))
            pos = () if conn.ua is None else (_uval(conn.ua[0]),)
            self.disconnect(self.senders[s], self.name(s, n), self.callback(conn.h), *pos, **kw)
            if not group:
                _count("dyn:noop-disconnect")
                return
            now = self.model.get(conn.slot, ())
            if not all(any(c is g for c in now) for g in group):
                return  # their weak argument died while the call was in progress (model updated by on_death)
            if len(group) == 1:
                # (conn itself, or - conn being disconnected already - the one connection made the same way)
                self.model_remove(group[0])
            else:
                self._disconnect_one_of_equal(group)
            return
        self.disconnect_by_key(self.senders[s], self.name(s, n), conn.key)
        if not connected:
            _count("dyn:noop-disconnect")
        elif any(c is conn for c in self.model.get(conn.slot, ())):
            self.model_remove(conn)
        # else: one of its weak arguments died while the call was in progress (model updated by on_death)

    def _disconnect_one_of_equal(self, group):
        """disconnect(args) met k >= 2 connections of the slot made with the same callback and the same arguments:
        one connection less ("remove a callback"), k - 1 stay connected and are served by every later emit.
        Which of the k is gone the docs do not say, so from here on (weaker reading) the place of these
        connections in the order is not judged, only their number; their keys are not used any more; an emit in
        progress may have lost any of them (all count as touched)."""
        slot, sig = group[0].slot, group[0].sig
        _count(f"dyn:args-disconnect-among-equal-connections:{min(len(group), 3)}{'+' if len(group) > 3 else ''}")
        for fr in self.frames:
            fr.touched.update(c.cid for c in group)
        self.floating.setdefault(slot, set()).add(sig)
        forget = [c.key for c in group if c.key is not None]
        self.keys = [e for e in self.keys if not any(e[2] is k for k in forget)]
        for c in group:
            c.key = None
        self.model_remove(group[0])  # any of them: they cannot be told apart

    def do_emit(self, s, n, eargs, press=False):
        fr = Frame()
        fr.slot, fr.eargs, fr.depth = (s, n), tuple(eargs), len(self.frames) + 1
        fr.S = list(self.model.get((s, n), ()))
        fr.ok = {c.sig for c in fr.S}
        fr.added, fr.touched, fr.calls, fr.rets, fr.events, fr.seen, fr.cur = [], set(), [], [], [], set(), None
        self.frames.append(fr)
        if press:
            # the widget emits by itself: the "activate" key makes a Button send 'click' with the button
            result = None
            self.senders[s].keypress((10,), "enter")
        else:
            result = self.emit(self.senders[s], self.name(s, n), *eargs)
        self.frames.pop()
        self.check_frame(fr, result, not press)
        fr.eargs = ()
        return result

    def do_press(self, s):
        """the user activates widget s (a Button: 'click' is emitted with the button as its argument); for
        the other senders, and where the harness works on a Signals object of its own, a plain emit"""
        if self.kinds[s] in BUTTON_KINDS and self.case["api"] != "instance":
            _count("dyn:emit-by-keypress")
            return self.do_emit(s, 0, [self.senders[s]], press=True)
        return self.do_emit(s, 0, [])

    def do_register(self, s, v, cont):
        """register_signal(class of sender s, another list of names): from now on exactly these names are
        'registered for the sender's class'"""
        kind = self.kinds[s]
        cls, names, reglist = self.cls[kind]
        new = [list(reglist), [*reglist, EXTRA], [names[0]], [names[1]], []][v % 5]
        self.register(cls, {"list": list, "tuple": tuple, "frozenset": frozenset}[cont](new))
        self.registered[kind] = set(new)

    # ---- a callback was called ---------------------------------------------------------------
    def called(self, h, args):
        self.ncalls += 1
        if self.ncalls > CALL_LIMIT:
            raise Discard()
        if not self.frames:
            raise Violation("called-outside-emit", f"handler {h} called with {args!r} while no emit is in progress")
        fr = self.frames[-1]
        ne, na = len(fr.eargs), len(args)
        # weak + user arguments, the emitted arguments and - for a connection made with the legacy positional
        # user_arg / a constructor's user_data - that argument "appended after the arguments passed when the
        # signal is emitted" (docstring of connect_signal)
        head = sig = None
        if ne <= na and tuple(args[na - ne :]) == fr.eargs:
            head = args[: na - ne]
            sig = (h, *(_tok(a) for a in head))
        if (sig is None or sig not in fr.ok) and ne < na and tuple(args[na - ne - 1 : na - 1]) == fr.eargs:
            sig1 = (h, *(_tok(a) for a in args[: na - ne - 1]), _ua_sig(args[-1]))
            if sig is None or sig1 in fr.ok:
                head, sig = args[: na - ne - 1], sig1
        if sig is None:
            raise Violation(
                "arguments",
                f"handler {h} received {self.show(args)} during emit{fr.slot} with arguments {self.show(fr.eargs)}: "
                f"the emitted arguments are not its last arguments (nor followed by one legacy user_arg only)",
            )
        if sig not in fr.ok:
            want = [list(c.sig[1:]) for c in fr.S + fr.added if c.h == h]
            was = sig in self.gone_sigs.get(fr.slot, ())
            if want and not was:
                raise Violation(
                    "arguments",
                    f"handler {h} connected to {fr.slot} with weak+user arguments {want} was called with "
                    f"{self.show(args)} (emitted arguments {list(fr.eargs)})",
                )
            v = Violation(
                "disconnected-not-called" if was else "unconnected-not-called",
                f"handler {h} was called with {self.show(args)} by emit{fr.slot} but "
                + ("had been disconnected (or its weak argument had died) before the emit started"
                   if was else "is not connected to that sender and name")
                + f"; connected at emit start: {[list(c.sig) for c in fr.S]}",
            )
            v.slot = fr.slot
            raise v
        fr.calls.append(sig)
        # which connection is "me": the first connection of the slot with this signature that no earlier
        # call of this emit has been attributed to (still connected ones first)
        me = next((c for c in self.model.get(fr.slot, ()) if c.sig == sig and c.cid not in fr.seen), None)
        if me is None:
            me = next((c for c in fr.S + fr.added if c.sig == sig and c.cid not in fr.seen), None)
        if me is not None:
            fr.seen.add(me.cid)
        fr.cur = me
        labels = [a.label for a in head if isinstance(a, W)]
        for lbl in labels:
            self.inuse[lbl] = self.inuse.get(lbl, 0) + 1
        del args, head
        try:
            self.behave(h, fr, me)
        finally:
            for lbl in labels:
                self.inuse[lbl] -= 1
        ret = self.hspecs[h].get("ret")
        fr.rets.append(bool(ret))
        return ret

    @staticmethod
    def show(args):
        return [(f"<{a.label}>" if isinstance(a, W) else a) for a in args]

    def behave(self, h, fr, me):
        beh = self.hspecs[h]["beh"]
        kind = beh[0]
        if kind == "plain":
            return
        s, n = fr.slot
        if kind == "disc_rel":
            off, via = beh[1], beh[2]
            if me is None:
                return
            lst = self.model.get(fr.slot, [])
            pos = next((i for i, c in enumerate(lst) if c is me), None)
            if off == 0:
                self.do_disconnect_conn(me, via)  # also when already disconnected: a no-op
            elif pos is not None and 0 <= pos + off < len(lst):
                self.do_disconnect_conn(lst[pos + off], via)
        elif kind == "disc_key":
            live = [(slot, key) for slot, gen, key in self.keys if gen == self.sgen[slot[0]]]
            if live:
                slot, key = live[beh[1] % len(live)]
                self.apply_key(slot, key, slot)
        elif kind == "connect":
            nh = len(self.hspecs)
            if h + 1 < nh:
                h2 = nh - 1 if beh[1] < 0 else h + 1 + beh[1] % (nh - h - 1)
                self.do_connect(s ^ beh[2], _nx(n, beh[3]), h2, beh[4])
        elif kind == "emit":
            if len(self.frames) < MAX_DEPTH:
                self.do_emit(s ^ beh[1], _nx(n, beh[2]), [100 * len(self.frames) + i for i in range(beh[3])])
        elif kind == "drop_weak":
            if self.pool:
                self.drop_weak(beh[1] % len(self.pool))
        elif kind == "gc":
            gc.collect()
        else:
            raise AssertionError(beh)

    def apply_key(self, own_slot, key, use_slot):
        """disconnect_by_key(key) on use_slot; a no-op unless use_slot is the key's own slot"""
        s, n = use_slot
        self.disconnect_by_key(self.senders[s], self.name(s, n), key)
        if use_slot == own_slot:
            conn = next((c for c in self.model.get(own_slot, ()) if c.key is key), None)
            if conn is not None:
                self.model_remove(conn)
                return
        _count("dyn:noop-disconnect")

    # ---- the per-emit oracle ---------------------------------------------------------------
    def check_frame(self, fr, result, has_result=True):
        changed = bool(fr.touched or fr.added)
        if changed:
            _count("dyn:emit-with-list-change")
        expected = any(fr.rets)
        if has_result and bool(result) != expected:
            raise Violation(
                "result-is-any",
                f"emit{fr.slot} returned {result!r}; the handlers that ran returned truth values {fr.rets}",
            )
        t_conns = [c for c in fr.S if c.cid not in fr.touched]
        silent = {c.sig for c in fr.S if c.cid in fr.touched} | {c.sig for c in fr.added}
        t_conns = [c for c in t_conns if c.sig not in silent]
        # equal connections of which disconnect(args) has taken one: connected throughout, so called once each -
        # their number is judged here, their place in the order is not (not known which of them is left)
        floating = {c.sig for c in t_conns} & self.floating.get(fr.slot, set())
        for sg in sorted(floating, key=repr):
            n_want, n_got = sum(1 for c in t_conns if c.sig == sg), fr.calls.count(sg)
            if n_want:
                _count("dyn:emit-to-equal-connections-left-by-args-disconnect")
            if n_got != n_want:
                v = Violation(
                    "throughout-once-in-order:" + ("not-called" if n_got < n_want else "called-more-than-once"),
                    f"emit{fr.slot} depth {fr.depth}: {n_want} connection(s) {list(sg)} are connected throughout (of "
                    f"several equal connections disconnect(args) removed one each time it was called), {n_got} call(s) "
                    f"with these arguments; calls {[list(x) for x in fr.calls]}, connected at start "
                    f"{[list(c.sig) for c in fr.S]}",
                )
                v.slot = fr.slot
                raise v
        t_conns = [c for c in t_conns if c.sig not in floating]
        t_sigs = [c.sig for c in t_conns]
        want = set(t_sigs)
        got = [sg for sg in fr.calls if sg in want]
        if got == t_sigs:
            return
        detail = (
            f"emit{fr.slot} depth {fr.depth}: connected throughout {[list(x) for x in t_sigs]}, calls "
            f"{[list(x) for x in fr.calls]}; connected at start {[list(c.sig) for c in fr.S]}, removed during "
            f"the emit (position, position of running handler): {[(e[0], e[1]) for e in fr.events]}"
        )
        # only misses?
        missed, pending = [], list(got)
        for c in t_conns:
            if pending and pending[0] == c.sig:
                pending.pop(0)
            else:
                missed.append(c)
        if not pending:  # got is a subsequence of the expected calls: handlers were left out
            after_removal = all(
                any(cur is not None and pos <= cur and m.cid in after for pos, cur, after in fr.events) for m in missed
            )
            if after_removal:
                # root cause seen on the unchanged tree: emit iterates the live list while an entry at or
                # before the running handler's position is removed.  Keep checking the rest of the case;
                # this is raised at the end unless something else fails first.
                if self.deferred is None:
                    self.deferred = Violation("throughout-once-in-order:skipped-after-removal-during-emit", detail)
                return
            v = Violation("throughout-once-in-order:not-called", detail)
            v.slot = fr.slot
            raise v
        if any(got.count(x) > t_sigs.count(x) for x in want):
            raise Violation("throughout-once-in-order:called-more-than-once", detail)
        raise Violation("throughout-once-in-order:order", detail)


# ---------------------------------------------------------------------------------------------
# interpreter


def _unraisable_hook(state):
    def hook(info):
        tb = info.exc_traceback
        inner = None
        while tb is not None:
            inner = tb.tb_frame.f_code.co_filename
            tb = tb.tb_next
        if inner and "/urwid/" in inner.replace("\\", "/") and "/verif/" not in inner:
            state.unraisable.append(f"{type(info.exc_value).__name__}: {info.exc_value} (in {info.object!r})")

    return hook


def run_machine(case):
    state = State(case)
    old_hook = sys.unraisablehook
    sys.unraisablehook = _unraisable_hook(state)
    try:
        _run_ops(state, case["ops"])
        _final_liveness(state)
    except Violation as v:
        if state.injected:
            note = f" [weak arguments collected inside signal functions (label, function:line): {state.injected}]"
            v.message += note
            v.args = (v.args[0] + note,)
        v.injected, v.tainted = list(state.injected), set(state.tainted)
        raise
    finally:
        sys.unraisablehook = old_hook
        # break the harness's own cycles so that nothing of this case survives
        state.frames = []
        state.cbs = []
        state.senders = []
        state.model = {}
        state.ctor_conn = []
        if state.created:
            # housekeeping, not oracle: the module-level Signals object keeps every class ever registered;
            # let the classes of this case go
            supported = getattr(getattr(usignals, "_signals", None), "_supported", None)
            if isinstance(supported, dict):
                for cls in state.created:
                    supported.pop(cls, None)
            state.created, state.cls = [], {}
            del cls
            gc.collect()  # classes are cycles; inside a campaign only this case's objects are looked at
    if state.deferred is not None:
        state.deferred.injected, state.deferred.tainted = list(state.injected), set(state.tainted)
        raise state.deferred
    return state


def _run_ops(state, ops):
    for op in ops:
        if op[0] == "arm":
            # during the next operation, at its op[1]-th line inside urwid/signals.py, weak argument op[2] dies
            state.armed = (op[1], op[2])
            continue
        if state.armed is not None:
            (k, j), state.armed = state.armed, None
            _do_op_injected(state, op, k, j)
        else:
            _do_op(state, op)  # its own scope: no local of one op keeps an object alive during the next
        state.end_of_top_level_op()


def _do_op_injected(state, op, k, j):
    inj = Injector(state, k, j)
    old = sys.gettrace()
    sys.settrace(inj.global_trace)
    try:
        _do_op(state, op)
    finally:
        sys.settrace(old)
        state.trace_lines = inj.n


def _do_op(state, op):
    nh = len(state.hspecs)
    kind = op[0]
    if kind == "c":
        state.do_connect(op[1], op[2], op[3] % nh, op[4] if len(op) > 4 else 0)
    elif kind == "cbad":
        s, which = op[1], op[2]
        obj, name = (state.senders[s], "nope") if which == 0 else (Unregistered(), "a")
        try:
            state.connect(obj, name, state.callback(0))
        except NameError:
            pass
        else:
            raise Violation(
                "unregistered-name-rejected",
                f"connect({type(obj).__name__}, {name!r}) did not raise NameError",
            )
    elif kind == "d":
        # disconnect by arguments the i-th connection of the slot
        lst = state.model.get((op[1], op[2]), [])
        if lst:
            state.do_disconnect_conn(lst[op[3] % len(lst)], "args")
    elif kind == "dh":
        # disconnect(args) handler h with its own (untagged) arguments: one of the connections made with them
        # (if there are several the docs are silent on which); a no-op if h is not connected to the slot at
        # all; not performed when it is connected with other arguments only (docs say the arguments "should be
        # exactly the same")
        s, n, h = op[1], op[2], op[3] % nh
        conns = [c for c in state.model.get((s, n), []) if c.h == h]
        plain = [c for c in conns if c.plain]
        if plain:
            # (several: they are equal connections, one of them goes - the model does not know which)
            state.do_disconnect_conn(plain[0], "args")
        elif not conns:
            hs = state.hspecs[h]
            kw = {}
            dcont = hs.get("dcont", "list")
            if hs["weak"]:
                kw["weak_args"] = _container(dcont, [state.weak_obj(k) for k in hs["weak"]])
            if hs["uargs"]:
                kw["user_args"] = _container(dcont, list(hs["uargs"]))
            pos = () if hs.get("uarg") is None else (_uval(hs["uarg"]),)
            state.disconnect(state.senders[s], state.name(s, n), state.callback(h), *pos, **kw)
            _count("dyn:noop-disconnect")
        else:
            _count("dyn:args-disconnect-not-performed")
    elif kind == "k":
        live = [(slot, key) for slot, gen, key in state.keys if gen == state.sgen[slot[0]]]
        if live:
            slot, key = live[op[1] % len(live)]
            cross = op[2] if len(op) > 2 else 0
            use = (slot[0] ^ (cross & 1), _nx(slot[1], cross >> 1))
            state.apply_key(slot, key, use)
    elif kind == "e":
        state.do_emit(op[1], op[2], op[3] if len(op) > 3 else [])
    elif kind == "p":
        state.do_press(op[1])
    elif kind == "dc":
        # disconnect_signal(widget, name, callback [, user_data]) for the connection the constructor of sender
        # op[1] made, as the widget's docstring says; does nothing when it is not connected (any more)
        conn = state.ctor_conn[op[1]]
        if conn is not None:
            state.do_disconnect_conn(conn, "args")
    elif kind == "reg":
        state.do_register(op[1], op[2], op[3] if len(op) > 3 else "list")
    elif kind == "dw":
        if state.pool:
            state.drop_weak(op[1] % len(state.pool))
    elif kind == "ds":
        _drop_sender(state, op[1], replace=True)
    elif kind == "gc":
        gc.collect()
    else:
        raise AssertionError(op)


def _drop_sender(state, s, replace):
    obj = state.senders[s]
    if obj is None:
        return
    nconn = sum(len(lst) for slot, lst in state.model.items() if slot[0] == s)
    ref = weakref.ref(obj)
    state.senders[s] = None
    for slot in [slot for slot in state.model if slot[0] == s]:
        del state.model[slot]
        state.gone_sigs.pop(slot, None)
        state.floating.pop(slot, None)
    state.sgen[s] += 1
    del obj
    gc.collect()
    if ref() is not None:
        raise Violation(
            "sender-not-kept-alive",
            f"sender {s} ({state.kinds[s]}) with {nconn} connection(s) is still alive after del + gc.collect()",
        )
    state.ctor_conn[s] = None
    if replace:
        state.new_sender(s)


def _final_liveness(state):
    """end of every history: nothing the harness lets go of is kept alive by the signal machinery
    (weak arguments first for an even number of ops, senders first for an odd number)"""
    order = ("w", "s") if len(state.case["ops"]) % 2 == 0 else ("s", "w")
    for what in order:
        if what == "w":
            for k in range(len(state.pool)):
                state.drop_weak(k)
            state.end_of_top_level_op()
        else:
            for s in range(len(state.senders)):
                _drop_sender(state, s, replace=False)


# ---------------------------------------------------------------------------------------------
# hist: exhaustive bounded histories

BEHAVIOURS = {
    "plain": (["plain"], None),
    "true": (["plain"], True),
    "disc_self": (["disc_rel", 0, "args"], None),
    "disc_prev": (["disc_rel", -1, "key"], None),
    "disc_next": (["disc_rel", 1, "args"], None),
    "conn_new": (["connect", -1, 0, 0, 0], None),  # connects the leaf handler (index 3) to this slot
    "reemit": (["emit", 0, 0, 1], None),
}
BEH_NAMES = list(BEHAVIOURS)
LIST_CHANGING = {"disc_self", "disc_prev", "disc_next", "conn_new"}
# argument shapes of the three handlers (the args sub-check sweeps all shapes)
HIST_ARGS = [([], []), ([0], ["u1"]), ([], ["u2", 2])]
# how the handlers hand their arguments over: handler 1 connects with one-shot generators and disconnects
# with lists, handler 2 connects with a list it changes afterwards and disconnects with a tuple
HIST_CONT = [{}, {"cont": "iter", "dcont": "list"}, {"cont": "list", "mut": 1, "dcont": "tuple"}]


def hist_to_machine(case):
    handlers = []
    for i, b in enumerate(case["beh"]):
        beh, ret = BEHAVIOURS[b]
        weak, uargs = HIST_ARGS[i]
        handlers.append({"beh": beh, "ret": ret, "weak": weak, "uargs": uargs, "method": i == 2, **HIST_CONT[i]})
    while len(handlers) < 3:
        weak, uargs = HIST_ARGS[len(handlers)]
        handlers.append({"beh": ["plain"], "ret": None, "weak": weak, "uargs": uargs, "method": False,
                         **HIST_CONT[len(handlers)]})
    handlers.append({"beh": ["plain"], "ret": None, "weak": [], "uargs": [], "method": False})  # leaf
    ops = []
    for i, op in enumerate(case["ops"]):
        if op[0] == "c":
            ops.append(["c", op[1], op[2], op[3], 0])
        elif op[0] == "d":
            ops.append(["dh", op[1], op[2], op[3]])
        elif op[0] == "k":
            ops.append(["k", op[1], 0])
        else:
            ops.append(["e", op[1], op[2], [i]])
    return {"api": "global", "senders": ["meta", "reg"], "handlers": handlers, "ops": ops}


def check_hist(case):
    run_machine(hist_to_machine(case))


def _histories(length, ns, nn, nh=3, exact=False):
    """canonical histories (first use of senders / names / handlers in index order) ending in an emit"""

    def rec(prefix, ms, mn, mh, nconn, left):
        srange, nrange = range(min(ms + 2, ns)), range(min(mn + 2, nn))
        if not exact or left == 1:
            for s in srange:
                for n in nrange:
                    yield [*prefix, ["e", s, n]]
        if left == 1:
            return
        for s in srange:
            for n in nrange:
                yield from rec([*prefix, ["e", s, n]], max(ms, s), max(mn, n), mh, nconn, left - 1)
                for h in range(min(mh + 2, nh)):
                    yield from rec([*prefix, ["c", s, n, h]], max(ms, s), max(mn, n), max(mh, h), nconn + 1, left - 1)
                    yield from rec([*prefix, ["d", s, n, h]], max(ms, s), max(mn, n), max(mh, h), nconn, left - 1)
        for i in range(nconn):
            yield from rec([*prefix, ["k", i]], ms, mn, mh, nconn, left - 1)

    yield from rec([], -1, -1, -1, 0, length)


def _assignments(ops):
    used = sorted({o[3] for o in ops if o[0] == "c"})
    nb = len(BEH_NAMES)
    top = (max(used) + 1) if used else 0
    total = nb ** len(used)
    for x in range(total):
        beh = ["plain"] * top
        for h in used:
            x, r = divmod(x, nb)
            beh[h] = BEH_NAMES[r]
        yield beh


def hist_cases(ctx, parts):
    """this shard's share: histories are dealt round-robin, each with all its behaviour assignments"""
    i = 0
    for length, ns, nn, exact in parts:
        for ops in _histories(length, ns, nn, exact=exact):
            i += 1
            if not ctx.mine(i):
                continue
            for beh in _assignments(ops):
                yield {"beh": beh, "ops": ops}


def _hist_nontrivial(case):
    beh = case["beh"]
    slots = set()
    for op in case["ops"]:
        if op[0] == "c" and beh[op[3]] in LIST_CHANGING:
            slots.add((op[1], op[2]))
        elif op[0] == "e" and (op[1], op[2]) in slots:
            return True
    return False


def _hist_classes(case):
    out = [f"hist:len{len(case['ops'])}"]
    out.extend(f"hist:beh:{b}" for b in set(case["beh"]))
    return out


# ---------------------------------------------------------------------------------------------
# args: exhaustive argument shapes


ARG_CONTS = [("list", 0), ("list", 1), ("list", 2), ("tuple", 0), ("iter", 0)]


def args_cases():
    for api in ("global", "instance"):
        for kind in KIND_NAMES:
            for method in (False, True):
                for nw in range(3):
                    for nu in range(3):
                        for ne in range(3):
                            yield {"api": api, "kind": kind, "method": method, "nw": nw, "nu": nu, "ne": ne}
    # how the arguments are handed over: iterable kind at connect (a list is left alone, extended or
    # emptied by the caller afterwards) x iterable kind at disconnect(args); sender kind / API do not matter here
    for cont, mut in ARG_CONTS:
        for dcont in CONTS:
            if (cont, mut, dcont) == ("list", 0, "list"):
                continue  # the sweep above
            for method in (False, True):
                for nw in range(3):
                    for nu in range(3):
                        if nw + nu:
                            yield {"api": "global", "kind": "meta", "method": method, "nw": nw, "nu": nu,
                                   "ne": (nw + nu) % 3, "cont": cont, "mut": mut, "dcont": dcont}
    # the legacy spelling connect_signal(obj, name, callback, user_arg): every value of the argument that is not
    # None (the false ones included) next to every shape of the other arguments
    for api in ("global", "instance"):
        for method in (False, True):
            for nw in range(2):
                for nu in range(3):
                    for ne in range(3):
                        for ui in range(len(UARGS)):
                            yield {"api": api, "kind": KIND_NAMES[(nw + nu + ne + ui) % len(KIND_NAMES)],
                                   "method": method, "nw": nw, "nu": nu, "ne": ne, "uarg": UARGS[ui]}
    # the constructor shorthand of the widgets that have one, without user_data and with every value of it
    for kind in CTOR_KINDS:
        for method in (False, True):
            for uarg in (None, *UARGS):
                # dup: the connect_signal() calls of the history repeat the constructor's connection exactly
                # (same callback, same user_data) instead of adding a user argument
                for dup in (0, 1):
                    yield {"api": "global", "kind": kind, "method": method, "ctor": 1, "uarg": uarg, "dup": dup}


def _args_classes(c):
    if "ctor" in c:
        return [f"args:constructor-shorthand:{c['kind']}", f"args:user_data:{c['uarg']!r}",
                *(["args:constructor-connection-repeated-by-connect_signal"] if c.get("dup") else [])]
    out = [f"args:w{c['nw']}u{c['nu']}e{c['ne']}"]
    if "uarg" in c:
        out.append(f"args:legacy-user_arg:{c['uarg']!r}")
    if "cont" in c:
        out.append(f"args:connect-{c['cont']}{['', '+append', '+clear'][c['mut']]}:disconnect-{c['dcont']}")
    return out


def _check_ctor(case):
    """Button(label, on_press, user_data) / CheckBox(..., on_state_change, user_data) / RadioButton(...):
    "shorthand for connect_signal()", to be undone with disconnect_signal(widget, name, callback, user_data)"""
    h0 = {"beh": ["plain"], "ret": None, "weak": [], "uargs": ["u"], "method": case["method"]}
    if case.get("dup"):
        h0.update(uargs=[], uarg=case["uarg"])
    h1 = {"beh": ["plain"], "ret": 1, "weak": [0], "uargs": [], "method": not case["method"]}
    e00, e01, press = ["e", 0, 0, [3]], ["e", 0, 1, []], ["p", 0]
    ops = [
        e00, press, e01,  # the constructor's connection alone
        ["c", 0, 0, 1, 0], ["c", 0, 0, 0, 0], e00, press,  # the same callback once more, with connect_signal
        ["dc", 0], e00, press,  # the constructor's connection is taken out the documented way
        ["dc", 0], e00,  # once more: nothing happens
        ["ds", 0], e00, press,  # another widget built the same way
        ["c", 0, 0, 1, 0], ["d", 0, 0, 0], e00, press, e01,  # the first connection of the slot, by arguments
    ]
    run_machine({"api": "global", "senders": [case["kind"], "meta"], "ctor": [[0, case["uarg"]], None],
                 "handlers": [h0, h1], "ops": ops})


def check_args(case):
    if "ctor" in case:
        return _check_ctor(case)
    nw, nu, ne = case["nw"], case["nu"], case["ne"]
    h0 = {"beh": ["plain"], "ret": 1 if nu == 1 else None, "weak": list(range(nw)),
          "uargs": [["u", 7][i] for i in range(nu)], "method": case["method"],
          "cont": case.get("cont", "list"), "mut": case.get("mut", 0), "dcont": case.get("dcont", "list"),
          "uarg": case.get("uarg")}
    h1 = {"beh": ["plain"], "ret": None, "weak": [], "uargs": [], "method": not case["method"]}
    eargs = [[11, "e"][i] for i in range(ne)]
    e00, e01, e10 = ["e", 0, 0, eargs], ["e", 0, 1, eargs], ["e", 1, 0, eargs]
    ops = [
        ["c", 0, 0, 1, 0], ["c", 0, 0, 0, 0], ["c", 0, 0, 0, 1], ["c", 0, 1, 0, 1], e00, e01, e10,
        ["k", 0, 0], e00,  # the first connection goes (by key): the two others keep their order
        ["d", 0, 0, 1], e00,  # the tagged connection of handler 0 goes (by arguments), the untagged stays
        ["dh", 0, 0, 0], e00, e01,  # now the untagged one
        ["dh", 0, 0, 0], e00,  # not connected any more: no-op
        ["c", 0, 0, 0, 0], ["c", 0, 0, 0, 0], e00,  # the same callback + arguments twice: two connections
        ["c", 0, 0, 1, 0], ["c", 0, 0, 0, 0], e00,  # ... and a third time, behind another handler
        # every disconnect(args) takes exactly one of them, the others go on being called once each per emit
        ["dh", 0, 0, 0], e00, ["dh", 0, 0, 0], e00, e01, ["dh", 0, 0, 0], e00, ["dh", 0, 0, 0], e00,
        ["c", 0, 0, 0, 0], ["c", 0, 0, 0, 0], e00,
        ["dw", 0], e00, e01, ["cbad", 0, 0], ["cbad", 0, 1],
    ]
    run_machine({"api": case["api"], "senders": [case["kind"], "meta"], "handlers": [h0, h1], "ops": ops})


# ---------------------------------------------------------------------------------------------
# reg: which names are "registered for the sender's class" - every spelling x registering again

REG_HANDLERS = [
    {"beh": ["plain"], "ret": None, "weak": [], "uargs": ["u"], "method": False},
    {"beh": ["plain"], "ret": True, "weak": [0], "uargs": [], "method": True, "cont": "tuple"},
    {"beh": ["plain"], "ret": None, "weak": [], "uargs": [], "method": False},
]
REG_VARIANTS = ("same", "extended", "first-only", "second-only", "none")


def reg_cases():
    """every sender kind (= spelling of the first registration) x own Signals() / module API x every sequence
    of at most two further register() calls (the same names again / one more name / only the first / only the
    second / no name) x the kind of container handed to register()"""
    seqs = [[]] + [[a] for a in range(5)] + [[a, b] for a in range(5) for b in range(5)]
    for api in ("global", "instance"):
        for kind in KIND_NAMES:
            for seq in seqs:
                for cont in REG_CONTS if seq else ("list",):
                    yield {"api": api, "kind": kind, "seq": seq, "cont": cont}


def check_reg(case):
    probe = [["c", 0, 0, 2, 0], ["c", 0, 1, 2, 0], ["c", 0, 2, 2, 0], ["c", 1, 0, 2, 0], ["c", 1, 2, 2, 0]]
    emits = [["e", 0, 0, [1]], ["e", 0, 1, []], ["e", 0, 2, [2]], ["e", 1, 0, []], ["e", 1, 2, []]]
    ops = [["c", 0, 0, 0, 0], ["c", 0, 1, 1, 0], *probe, *emits]
    for v in case["seq"]:
        # connections made before stay; from now on a connect is accepted exactly for the new list of names
        ops += [["reg", 0, v, case["cont"]], *probe, *emits]
    ops += [["dh", 0, 0, 0], ["k", 1, 0], ["d", 0, 2, 0], *emits, ["ds", 0], *probe, *emits]
    run_machine({"api": case["api"], "senders": [case["kind"], case["kind"]], "handlers": REG_HANDLERS, "ops": ops})


def _reg_classes(case):
    return [f"reg:kind:{case['kind']}", *(f"reg:again:{REG_VARIANTS[v]}" for v in case["seq"]),
            f"reg:registrations:{1 + len(case['seq'])}"]


# ---------------------------------------------------------------------------------------------
# moment: one operation x every line of urwid/signals.py it executes x every weak argument that may die there

MOMENT_HANDLERS = [
    {"beh": ["plain"], "ret": None, "weak": [0], "uargs": ["u"], "method": False},
    {"beh": ["plain"], "ret": None, "weak": [1], "uargs": [], "method": True, "cont": "iter"},
    {"beh": ["plain"], "ret": None, "weak": [2], "uargs": ["v", 5], "method": False, "cont": "tuple"},
    {"beh": ["plain"], "ret": True, "weak": [3], "uargs": ["n"], "method": False},  # connected under injection
    {"beh": ["plain"], "ret": 1, "weak": [], "uargs": [], "method": True},  # connected afterwards
]
# three connections on slot (0, 0) (weak arguments 0, 1, 2 = first / middle / last), one on slot (0, 1)
MOMENT_PREFIX = [["c", 0, 0, 0, 0], ["c", 0, 0, 1, 0], ["c", 0, 0, 2, 0], ["c", 0, 1, 1, 1]]
MOMENT_OPS = {
    "connect": ["c", 0, 0, 3, 0],
    "connect-other-name": ["c", 0, 1, 3, 0],
    "connect-other-sender": ["c", 1, 0, 3, 0],
    "connect-unregistered": ["cbad", 0, 0],
    "disconnect-args-first": ["d", 0, 0, 0],
    "disconnect-args-middle": ["d", 0, 0, 1],
    "disconnect-args-last": ["d", 0, 0, 2],
    "disconnect-args-unconnected": ["dh", 0, 0, 4],
    "disconnect-key-first": ["k", 0, 0],
    "disconnect-key-middle": ["k", 1, 0],
    "disconnect-key-last": ["k", 2, 0],
    "disconnect-key-other-name": ["k", 0, 2],
    "emit": ["e", 0, 0, [1]],
    "emit-other-name": ["e", 0, 1, []],
}
MOMENT_SUFFIX = [
    ["e", 0, 0, [7]], ["e", 0, 1, []], ["e", 1, 0, [8]],
    ["c", 0, 0, 4, 0], ["e", 0, 0, []],  # the machinery still takes new connections on that slot
    ["dh", 0, 0, 3], ["dh", 0, 0, 4], ["e", 0, 0, [9]],
]
MOMENT_KINDS = ("meta", "list", "edit")


def moment_to_machine(case):
    ops = [*MOMENT_PREFIX, ["arm", case["k"], case["victim"]], MOMENT_OPS[case["op"]], *MOMENT_SUFFIX]
    return {"api": case["api"], "senders": [case["kind"], "reg"], "handlers": MOMENT_HANDLERS, "ops": ops}


def check_moment(case):
    state = run_machine(moment_to_machine(case))
    if case.get("must_fire") and not state.injected:
        raise Discard()  # the operation executed fewer lines than when the sweep was laid out


def moment_cases():
    """the number of lines each operation executes is measured on the tree under test (one run with an
    injection point that is never reached); every line index below it x every victim is then a case"""
    for api in ("global", "instance"):
        for kind in MOMENT_KINDS:
            for op in MOMENT_OPS:
                probe = {"api": api, "kind": kind, "op": op, "k": 10**6, "victim": 0}
                try:
                    nlines = run_machine(moment_to_machine(probe)).trace_lines
                except Exception:  # noqa: BLE001  the tree under test fails without any injection: other subs report it
                    nlines = 40
                for k in range(nlines):
                    for victim in range(4):
                        yield {"api": api, "kind": kind, "op": op, "k": k, "victim": victim, "must_fire": 1}


def _moment_classes(case):
    return [f"moment:{case['op']}", f"moment:victim{case['victim']}"]


# ---------------------------------------------------------------------------------------------
# body: the connections urwid's widgets make for themselves.  A ListBox is a handler of its body's "modified"
# signal ("Changes made to this object ... will cause ListBox objects using this list walker to be updated"):
# ListBox(walker) / listbox.body = walker is a connect of the box to the walker and a disconnect from the body it
# had before.  The same history language as everywhere else - connect, disconnect, emit - spoken through the
# widget's API, with the walker object handed over again, handed to a second box, replaced and brought back.

BODY_KINDS = ("simple", "simple0", "focus", "focus0", "custom", "custom0", "silent")
BODY_SIGNAL = "modified"


class _AppWalker(urwid.ListWalker):
    """a list walker of the application's own (the manual's recipe: subclass ListWalker, call _modified());
    without items it is false like an empty SimpleListWalker"""

    def __init__(self, n):
        self.items = [urwid.Text(str(i)) for i in range(n)]
        self.focus = 0

    def __len__(self):
        return len(self.items)

    def __getitem__(self, pos):
        return self.items[pos]

    def next_position(self, pos):
        if pos + 1 >= len(self.items):
            raise IndexError(pos)
        return pos + 1

    def prev_position(self, pos):
        if pos <= 0:
            raise IndexError(pos)
        return pos - 1

    def set_focus(self, pos):
        self.focus = pos
        self._modified()

    def grow(self):
        self.items.append(urwid.Text("x"))
        self._modified()


class _SilentWalker:
    """the walker protocol without a "modified" signal (the body setter of ListBox provides for it: "our list
    walker has no modified signal"): every connect to it is a connect to an unregistered name"""

    def get_focus(self):
        return None, None

    def get_next(self, pos):
        return None, None

    def get_prev(self, pos):
        return None, None

    def set_focus(self, pos):
        pass


class _CountingListBox(urwid.ListBox):
    """observation only: the handler a ListBox connects is its bound _invalidate; the subclass reports each call"""

    def __init__(self, body, report, bid):
        self._c14_report = (report, bid)  # before ListBox.__init__, which already invalidates
        super().__init__(body)

    def _invalidate(self):
        report, bid = self._c14_report
        report(("lb", bid))
        super()._invalidate()


def _make_walker(kind):
    n = 0 if kind.endswith("0") else 2
    if kind.startswith("simple"):
        return urwid.SimpleListWalker([urwid.Text(str(i)) for i in range(n)])
    if kind.startswith("focus"):
        return urwid.SimpleFocusListWalker([urwid.Text(str(i)) for i in range(n)])
    if kind.startswith("custom"):
        return _AppWalker(n)
    return _SilentWalker()


# ways in which a walker sends "modified": exactly one emit (emit_signal, the walker's own _modified()), or a
# change of the walker made through its public interface (at least one emit; the sentinel handler counts them)
BODY_HOWS = {
    "simple": ("emit", "modified", "append", "focus", "delete"),
    "focus": ("modified", "append", "emit", "delete", "focus"),
    "custom": ("grow", "emit", "focus", "modified"),
    "silent": ("emit",),
}
MAX_BODY_WALKERS = 12


class BodyState:
    def __init__(self, case):
        self.case = case
        self.walkers = []  # walker objects; index = identity in the model
        self.wkinds = []
        self.model = []  # per walker: the connections in order: ("s", w) sentinel, ("u", w) user handler, ("lb", bid)
        self.loose = []  # per walker: connections whose place in the order the text does not fix
        self.boxes = [None] * case.get("nboxes", 2)  # slot -> (bid, ListBox) the harness holds
        self.body_of = {}  # bid -> walker index the box uses now
        self.was_on = {}  # bid -> walker indices it used before (diagnosis only)
        self.nbid = 0
        self.cur = None  # calls of the emit in progress
        self.step = 0
        self.handlers = {}
        for kind in case["kinds"]:
            self.add_walker(_make_walker(kind), kind, [])

    # ---- handlers ---------------------------------------------------------------------------
    def report(self, who):
        if self.cur is None:
            if who[0] != "lb":  # a box invalidates itself for many reasons of its own; nobody else calls the others
                raise Violation("called-outside-emit", f"handler {who} called while no walker is sending a signal")
            return
        self.cur.append(who)

    def handler(self, who):
        fn = self.handlers.get(who)
        if fn is None:

            def fn(*args, _who=who):
                if args:
                    raise Violation("arguments", f"handler {_who} of 'modified' (sent without arguments) got {args!r}")
                self.report(_who)

            self.handlers[who] = fn
        return fn

    def add_walker(self, obj, kind, conns):
        w = len(self.walkers)
        self.walkers.append(obj)
        self.wkinds.append(kind)
        self.model.append(list(conns))
        self.loose.append(set())
        if kind != "silent":
            urwid.connect_signal(obj, BODY_SIGNAL, self.handler(("s", w)))
            self.model[w].append(("s", w))
        return w

    # ---- operations ---------------------------------------------------------------------------
    def use(self, b, w, rebuild):
        """slot b's box gets walker w as its body (a box is built if the slot has none / ``rebuild``)"""
        if self.boxes[b] is None or rebuild:
            # a box the harness lets go of stays connected to its body (nothing disconnects it)
            bid, self.nbid = self.nbid, self.nbid + 1
            self.boxes[b] = (bid, _CountingListBox(self.walkers[w], self.report, bid))
            _count("dyn:body:box-built-on-walker")
            old = None
        else:
            bid, box = self.boxes[b]
            old = self.body_of[bid]
            box.body = self.walkers[w]
            if box.body is not self.walkers[w]:
                raise Violation("body-is-the-walker", f"listbox.body = walker {w}; listbox.body is another object")
        self._moved(bid, old, w)

    def use_list(self, b, n, rebuild):
        """the body given as a plain list of widgets: the box wraps it in a walker of its own (listbox.body)"""
        widgets = [urwid.Text(str(i)) for i in range(n)]
        if self.boxes[b] is None or rebuild:
            bid, self.nbid = self.nbid, self.nbid + 1
            box = _CountingListBox(widgets, self.report, bid)
            self.boxes[b] = (bid, box)
            old = None
        else:
            bid, box = self.boxes[b]
            old = self.body_of[bid]
            box.body = widgets
        obj = box.body
        if any(obj is x for x in self.walkers) or obj is widgets:
            raise Violation("body-is-the-walker", "listbox.body = [widgets...] did not make a list walker of its own")
        _count("dyn:body:plain-list")
        if old is not None:
            self._leave(bid, old)
        # the box connected first; the harness's sentinel comes after it
        w = self.add_walker(obj, "simple", [("lb", bid)])
        self.body_of[bid] = w

    def _leave(self, bid, old):
        self.model[old] = [c for c in self.model[old] if c != ("lb", bid)]
        self.loose[old].discard(("lb", bid))
        self.was_on.setdefault(bid, set()).add(old)

    def _moved(self, bid, old, w):
        if old == w:
            # the walker it already has, handed over again: still connected, once; whether the connection keeps
            # its place among the walker's handlers or is a new, last one the text does not say
            self.loose[w].add(("lb", bid))
            _count("dyn:body:same-walker-assigned-again")
            return
        if old is not None:
            self._leave(bid, old)
            _count("dyn:body:walker-replaced")
        self.body_of[bid] = w
        if self.wkinds[w] == "silent":
            _count("dyn:body:walker-without-signal")
            return
        if any(c[0] == "lb" for c in self.model[w]):
            _count("dyn:body:walker-shared-by-boxes")
        if w in self.was_on.get(bid, ()):
            _count("dyn:body:earlier-walker-brought-back")
        self.model[w].append(("lb", bid))

    def toggle(self, w):
        """the application's own handler on the walker's signal, next to the boxes': connect / disconnect"""
        who, obj = ("u", w), self.walkers[w]
        if self.wkinds[w] == "silent":
            try:
                urwid.connect_signal(obj, BODY_SIGNAL, self.handler(who))
            except NameError:
                _count("dyn:unregistered-connect-rejected")
                return
            raise Violation("unregistered-name-rejected", "connect(walker without signals, 'modified') did not raise")
        if who in self.model[w]:
            urwid.disconnect_signal(obj, BODY_SIGNAL, self.handler(who))
            self.model[w].remove(who)
        else:
            urwid.connect_signal(obj, BODY_SIGNAL, self.handler(who))
            self.model[w].append(who)

    # ---- emits and their oracle -------------------------------------------------------------
    def send(self, w, how):
        obj = self.walkers[w]
        self.cur = calls = []
        try:
            if how == "emit":
                urwid.emit_signal(obj, BODY_SIGNAL)
            elif how == "modified":
                obj._modified()  # what ListWalker subclasses are told to call
            elif how == "grow" or (type(obj) is _AppWalker and not len(obj)):
                obj.grow()
            elif type(obj) is _AppWalker:
                obj.set_focus(len(obj) - 1)
            elif how == "append" or not len(obj):
                obj.append(urwid.Text("+"))
            elif how == "delete":
                del obj[0]
            else:
                obj.set_focus(len(obj) - 1)
        finally:
            self.cur = None
        return calls

    def judge(self):
        """every walker the history has seen sends its signal: the boxes using it, the sentinel and the
        application's handler are called once each per emit, in connection order; nothing else is called"""
        self.step += 1
        for w in range(len(self.walkers)):
            hows = BODY_HOWS[self.wkinds[w].rstrip("0")]
            how = hows[(self.step + w) % len(hows)]
            calls = self.send(w, how)
            want = self.model[w]
            exact = how in ("emit", "modified")
            k = 1 if exact or not want else sum(1 for c in calls if c == ("s", w))
            _count(f"dyn:body:emit-by:{how}")
            if calls == want * k and k >= 1:
                continue
            where = (
                f"walker {w} ({self.wkinds[w]}) sent 'modified' ({how}): calls {calls}; connected, in order "
                f"{want} (boxes using it: {sorted(b for b, x in self.body_of.items() if x == w)}"
                + (f", emits counted by the sentinel: {k})" if not exact else ")")
            )
            for c in calls:
                if c not in want:
                    gone = c[0] == "lb" and w in self.was_on.get(c[1], ())
                    raise Violation("disconnected-not-called" if gone else "unconnected-not-called",
                                    f"{c} was called, " + ("its box uses another walker now" if gone else "it is not connected")
                                    + "; " + where)
            if k < 1:
                raise Violation("throughout-once-in-order:not-called", "a change of the walker sent no signal; " + where)
            for c in want:
                n = calls.count(c)
                if n != k:
                    raise Violation(
                        "throughout-once-in-order:" + ("called-more-than-once" if n > k else "not-called"), where
                    )
            fixed = [c for c in want if c not in self.loose[w]]
            if [c for c in calls if c not in self.loose[w]] != fixed * k:
                raise Violation("throughout-once-in-order:order", where)
            # only the place of a connection made by handing the same walker over again differs: not judged


def _body_op(state, op):
    kind = op[0]
    nw = min(len(state.walkers), MAX_BODY_WALKERS)
    if kind in ("set", "new"):
        state.use(op[1] % len(state.boxes), op[2] % nw, kind == "new")
    elif kind in ("list", "newlist"):
        if len(state.walkers) >= MAX_BODY_WALKERS:
            return
        state.use_list(op[1] % len(state.boxes), op[2], kind == "newlist")
    elif kind == "tog":
        state.toggle(op[1] % nw)
    else:
        raise AssertionError(op)


def check_body(case):
    state = BodyState(case)
    try:
        state.judge()
        for op in case["ops"]:
            _body_op(state, op)
            state.judge()
        refs = [(w, state.wkinds[w], weakref.ref(obj)) for w, obj in enumerate(state.walkers)]
    finally:
        # let go of everything: boxes and walkers refer to each other (box -> body, walker -> handler -> box)
        state.walkers, state.boxes, state.handlers = [], [], {}
    del state
    gc.collect()
    alive = [(w, kind) for w, kind, ref in refs if ref() is not None]
    if alive:
        raise Violation(
            "sender-not-kept-alive",
            f"walkers {alive} are still alive after the harness dropped every walker and ListBox and gc.collect() ran",
        )


BODY_KIND_SETS = [
    ["simple", "focus0", "custom"],
    ["simple0", "focus", "silent"],
    ["focus", "custom0", "simple0"],
    ["custom", "silent", "simple"],
]
# two box slots x three walkers: hand a walker to a box (built on it if the slot is empty), build another box on
# it, give a plain list (empty / two widgets) as the body, connect / disconnect the application's own handler
BODY_ALPHABET = (
    [["set", b, w] for b in range(2) for w in range(3)]
    + [["new", b, w] for b in range(2) for w in range(3)]
    + [["list", b, n] for b in range(2) for n in (0, 2)]
    + [["tog", w] for w in range(3)]
)


def _body_histories(length):
    if length == 0:
        yield []
        return
    for head in _body_histories(length - 1):
        for op in BODY_ALPHABET:
            yield [*head, op]


def body_cases(lengths_all, lengths_rot):
    """every history of the given lengths over the alphabet: x every set of walker kinds / with the sets taken
    in turn"""
    for length in lengths_all:
        for kinds in BODY_KIND_SETS:
            for ops in _body_histories(length):
                yield {"kinds": kinds, "ops": ops}
    i = 0
    for length in lengths_rot:
        for ops in _body_histories(length):
            yield {"kinds": BODY_KIND_SETS[i % len(BODY_KIND_SETS)], "ops": ops}
            i += 1


def _body_nontrivial(case):
    """a box is given a walker after it (or another box) has had one: a connection is replaced, shared or repeated"""
    return sum(1 for o in case["ops"] if o[0] != "tog") >= 2


def _body_classes(case):
    out = {f"body:walker:{k}" for k in case["kinds"]}
    out.update(f"body:op:{o[0]}" for o in case["ops"])
    out.add(f"body:len{min(len(case['ops']), 6)}{'+' if len(case['ops']) > 6 else ''}")
    return sorted(out)


_body_op_st = st.one_of(
    st.tuples(st.just("set"), st.integers(0, 2), st.integers(0, 11)),
    st.tuples(st.just("set"), st.integers(0, 1), st.integers(0, 1)),
    st.tuples(st.just("new"), st.integers(0, 2), st.integers(0, 11)),
    st.tuples(st.sampled_from(["list", "newlist"]), st.integers(0, 2), st.integers(0, 2)),
    st.tuples(st.just("tog"), st.integers(0, 11)),
).map(list)
_body_case = st.fixed_dictionaries(
    {
        "kinds": st.lists(st.sampled_from(BODY_KINDS), min_size=1, max_size=4),
        "nboxes": st.integers(1, 3),
        "ops": st.lists(_body_op_st, min_size=2, max_size=20),
    }
)


# ---------------------------------------------------------------------------------------------
# machine: Hypothesis op lists

_bit = st.integers(0, 1)
_via = st.sampled_from(["key", "args"])
_beh = st.one_of(
    st.just(["plain"]),
    st.tuples(st.just("disc_rel"), st.sampled_from([0, 0, -1, 1, -2, 2]), _via).map(list),
    st.tuples(st.just("disc_key"), st.integers(0, 7)).map(list),
    st.tuples(st.just("connect"), st.integers(0, 3), st.sampled_from([0, 0, 1]), st.sampled_from([0, 0, 1]), _bit).map(list),
    st.tuples(st.just("emit"), st.sampled_from([0, 0, 1]), st.sampled_from([0, 0, 1]), st.integers(0, 2)).map(list),
    st.tuples(st.just("drop_weak"), st.integers(0, 2)).map(list),
    st.just(["gc"]),
)
_handler = st.fixed_dictionaries(
    {
        "beh": _beh,
        "ret": st.sampled_from([None, None, False, 0, True, 1, "y"]),
        "weak": st.lists(st.integers(0, 2), max_size=2),
        "uargs": st.lists(st.sampled_from(["u", "v", 5]), max_size=2),
        "method": st.booleans(),
        "cont": st.sampled_from(["list", "list", "tuple", "iter"]),
        "mut": st.sampled_from([0, 0, 1, 2]),
        "dcont": st.sampled_from(CONTS),
        "uarg": st.sampled_from([None] * 9 + UARGS),  # the legacy positional user_arg
    }
)
_h = st.integers(0, 4)
_op = st.one_of(
    st.tuples(st.just("c"), _bit, _bit, _h, st.sampled_from([0, 0, 1])),
    st.tuples(st.just("c"), _bit, _bit, _h, st.sampled_from([0, 0, 1])),
    st.tuples(st.just("c"), st.just(0), st.just(0), _h, st.just(0)),
    st.tuples(st.just("e"), _bit, _bit, st.lists(st.integers(0, 3), max_size=2)),
    st.tuples(st.just("e"), st.just(0), st.just(0), st.lists(st.integers(0, 3), max_size=2)),
    st.tuples(st.just("d"), _bit, _bit, st.integers(0, 5)),
    st.tuples(st.just("dh"), _bit, _bit, _h),
    st.tuples(st.just("k"), st.integers(0, 9), st.sampled_from([0, 0, 0, 1, 2, 3])),
    st.tuples(st.just("dw"), st.integers(0, 2)),
    st.tuples(st.just("ds"), _bit),
    st.tuples(st.just("cbad"), _bit, _bit),
    st.tuples(st.just("gc")),
    # the third name (registered only after a "reg" that adds it)
    st.tuples(st.just("c"), _bit, st.just(2), _h, st.just(0)),
    st.tuples(st.just("e"), _bit, st.just(2), st.lists(st.integers(0, 3), max_size=1)),
    # the widget emits by itself / the constructor's connection is disconnected by its arguments / the
    # sender's class is registered again with another list of names
    st.tuples(st.just("p"), _bit),
    st.tuples(st.just("dc"), _bit),
    st.tuples(st.just("reg"), _bit, st.integers(0, 4), st.sampled_from(REG_CONTS)),
    # the next operation is interrupted at its k-th line inside urwid/signals.py: a weak argument dies there
    st.tuples(st.just("arm"), st.one_of(st.integers(0, 12), st.integers(0, 60)), st.integers(0, 2)),
).map(list)

_machine_case = st.fixed_dictionaries(
    {
        "api": st.sampled_from(["global", "global", "instance"]),
        "senders": st.lists(st.sampled_from(KIND_NAMES), min_size=2, max_size=2),
        "handlers": st.lists(_handler, min_size=3, max_size=5),
        # senders that are widgets with a constructor shorthand are built with it: [handler, user_data]
        "ctor": st.lists(
            st.one_of(st.none(), st.tuples(_h, st.sampled_from([None, None, *UARGS])).map(list)), min_size=2, max_size=2
        ),
        "ops": st.lists(_op, min_size=2, max_size=25),
    }
)

_CHANGING_BEH = {"disc_rel", "disc_key", "connect", "drop_weak"}


def _machine_nontrivial(case):
    if not any(o[0] == "e" for o in case["ops"]):
        return False
    nh = len(case["handlers"])
    connected = {o[3] % nh for o in case["ops"] if o[0] == "c"}
    return any(case["handlers"][h]["beh"][0] in _CHANGING_BEH for h in connected) or any(
        o[0] in ("dw", "arm") for o in case["ops"]
    )


def _machine_classes(case):
    out = {f"machine:api:{case['api']}"}
    out.update(f"machine:sender:{k}" for k in case["senders"])
    nh = len(case["handlers"])
    connected = {o[3] % nh for o in case["ops"] if o[0] == "c"}
    out.update(f"machine:beh:{case['handlers'][h]['beh'][0]}" for h in connected)
    out.update(f"machine:op:{o[0]}" for o in case["ops"])
    if any(case["handlers"][h]["weak"] for h in connected):
        out.add("machine:weak-args-connected")
    out.update(f"machine:cont:{case['handlers'][h].get('cont', 'list')}" for h in connected)
    if any(case["handlers"][h].get("uarg") is not None for h in connected):
        out.add("machine:legacy-user_arg-connected")
    if any(c is not None and k in CTOR_KINDS for c, k in zip(case.get("ctor") or (), case["senders"])):
        out.add("machine:constructor-shorthand" if case["api"] == "global" else "machine:constructor-shorthand-unused")
    return sorted(out)


def check_machine(case):
    if _CTX is None:
        run_machine(case)
        return
    # inside a campaign Hypothesis keeps allocating: hide its objects from the collector for the duration
    # of the case, so that the case's gc.collect() calls only look at the case's own objects
    gc.freeze()
    try:
        run_machine(case)
    finally:
        gc.unfreeze()


def check_bodym(case):
    if _CTX is None:
        return check_body(case)
    gc.freeze()  # as in check_machine: the case's gc.collect() looks at the case's objects only
    try:
        return check_body(case)
    finally:
        gc.unfreeze()


SUBS = {"hist": check_hist, "args": check_args, "reg": check_reg, "moment": check_moment, "machine": check_machine,
        "body": check_body, "bodym": check_bodym}


def shard(ctx):
    global _CTX
    _CTX = ctx
    # everything allocated so far (urwid, hypothesis) is taken out of the collector's sight so that the
    # many gc.collect() calls of the histories only look at the objects of the current case
    gc.collect()
    gc.freeze()
    try:
        ctx.sweep("args", args_cases(), classify=_args_classes,
                  exhaustive_name="argument shapes")
        if ctx.failure is not None:
            return
        ctx.sweep("reg", reg_cases(), classify=_reg_classes,
                  exhaustive_name="registration spellings x registering again")
        if ctx.failure is not None:
            return
        if ctx.tier == "quick":
            ctx.sweep("body", body_cases([3], [4]), nontrivial=_body_nontrivial, classify=_body_classes,
                      exhaustive_name="ListBox body histories ==3 x 4 walker kind sets, ==4 kind sets in turn")
        else:
            ctx.sweep("body", body_cases([3, 4], [5]), nontrivial=_body_nontrivial, classify=_body_classes,
                      exhaustive_name="ListBox body histories 3..4 x 4 walker kind sets, ==5 kind sets in turn")
        if ctx.failure is not None:
            return
        ctx.sweep("moment", moment_cases(), classify=_moment_classes,
                  exhaustive_name="one operation x every line of signals.py it executes x dying weak argument")
        if ctx.failure is not None:
            return
        if ctx.tier == "quick":
            parts = [(4, 2, 2, False), (5, 1, 2, True)]
            name = "histories <=4 on 2x2x3, ==5 on 1x2x3, x behaviours"
        else:
            parts = [(5, 2, 2, False), (6, 1, 1, True)]
            name = "histories <=5 on 2x2x3, ==6 on 1x1x3, x behaviours"
        ctx.sweep("hist", hist_cases(ctx, parts), nontrivial=_hist_nontrivial, classify=_hist_classes,
                  exhaustive_name=name, stride=False)
        if ctx.failure is not None:
            return
        # the two Hypothesis campaigns come last: their cases unfreeze the collector's permanent generation
        ctx.given("bodym", _body_case, ctx.scale(150, 3000), nontrivial=_body_nontrivial, classify=_body_classes)
        if ctx.failure is not None:
            return
        ctx.given("machine", _machine_case, ctx.scale(1000, 20000), nontrivial=_machine_nontrivial,
                  classify=_machine_classes)
    finally:
        _CTX = None


# ---------------------------------------------------------------------------------------------
# known findings (active only if listed in known_findings.json / known_findings.d with status "known")

_REMOVING = {"disc_self", "disc_prev", "disc_next"}


def _known_emit_skips(sub, case, v):
    """emit() iterates the live handler list; a handler (or the weakref callback of a dying weak
    argument) that removes an entry at or before the running handler's position makes the loop skip
    the entry that follows."""
    if v.clause != "throughout-once-in-order:skipped-after-removal-during-emit":
        return False
    if sub == "hist":
        return any(b in _REMOVING for b in case["beh"])
    if sub == "machine":
        return any(h["beh"][0] in ("disc_rel", "disc_key", "drop_weak") for h in case["handlers"])
    return False


def _known_disconnect_live_list(sub, case, v):
    """disconnect() walks the live handler list with a for loop and disconnect_by_key() with a list
    comprehension; when a weak argument of a connection of that very list dies between two iterations
    (its weakref callback edits the list in place) the walk skips an entry: disconnect() does not find
    the handler it was asked to remove, disconnect_by_key() writes back a list that lacks a connected
    handler.  Matches only violations on a slot where the harness made such a death happen inside
    disconnect / disconnect_by_key (sub-check moment, op "arm" of machine)."""
    if v.clause not in ("disconnected-not-called", "throughout-once-in-order:not-called"):
        return False
    slot = getattr(v, "slot", None)
    return slot is not None and slot in getattr(v, "tainted", ())


KNOWN = {
    "C14-emit-skips-after-removal": _known_emit_skips,
    "C14-disconnect-iterates-live-list": _known_disconnect_live_list,
}
