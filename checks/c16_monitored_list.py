"""C16 — focus-tracking lists behave as Python lists whose focus follows its item.

Oracle: a built-in ``list`` receives the same call (contents / exception type / unchanged on
failure) plus a cell-tracking focus rule (see DESIGN.md C16).
"""
from __future__ import annotations

import itertools

from hypothesis import strategies as st

import urwid
from urwid.widget.monitored_list import MonitoredFocusList, MonitoredList
from vlib.runner import Discard, Violation

PROPERTY = "C16"
LEVEL = "exploration"
RULE = (
    "single: exhaustive enumeration of (list size 0..5 [6 thorough], every initial focus, every single "
    "list operation with every argument: item get/set/del with index -7..7, slice set/del with a,b in "
    "-7..7|None and step in None,1,2,3,-1,-2 and 0..3 new items, insert, append, extend, pop, remove, "
    "reverse, sort, +=, *= n in -1..3, clear) on MonitoredFocusList, compared with a built-in list and "
    "the cell-tracking focus rule; seq: Hypothesis op sequences (<=30 ops) on MonitoredList, "
    "MonitoredFocusList, SimpleListWalker, SimpleFocusListWalker and Pile.contents. Non-trivial: the "
    "operation's slice touches the focus cell, has a non-unit or negative step, or is empty/reversed "
    "(single); a sequence with >=3 content-changing ops of which one is a slice op (seq)."
)
ASSUMPTIONS = [
    "CPython's built-in list is the reference for contents and exception types",
    "new items are passed as list/tuple (the type hints say Collection); iterators are not generated",
    "items are identity-distinct objects with distinct sort keys, so 'same item' is unambiguous except "
    "after *= n (duplicates), where sort() may pick any index holding the identical object",
]


class Item:
    __slots__ = ("v",)

    def __init__(self, v):
        self.v = v

    def __lt__(self, other):
        return self.v < other.v

    def __repr__(self):
        return f"I{self.v}"


# ---------------------------------------------------------------------------------------------
# applying one op to a target list-like object


def apply_op(lst, op, new_item):
    """Apply op to lst (real or model).  new_item(k) -> the k-th fresh item for this op."""
    kind = op[0]
    if kind == "get":
        return lst[op[1]]
    if kind == "set":
        lst[op[1]] = new_item(0)
    elif kind == "del":
        del lst[op[1]]
    elif kind == "setslice":
        lst[slice(op[1], op[2], op[3])] = [new_item(i) for i in range(op[4])]
    elif kind == "delslice":
        del lst[slice(op[1], op[2], op[3])]
    elif kind == "insert":
        lst.insert(op[1], new_item(0))
    elif kind == "append":
        lst.append(new_item(0))
    elif kind == "extend":
        lst.extend([new_item(i) for i in range(op[1])])
    elif kind == "iadd":
        lst += [new_item(i) for i in range(op[1])]
    elif kind == "imul":
        lst *= op[1]
    elif kind == "pop":
        if op[1] is None:
            return lst.pop()
        return lst.pop(op[1])
    elif kind == "remove":
        # remove the item currently at index op[1] (mod len), or a foreign item when empty/None
        if op[1] is None or len(lst) == 0:
            lst.remove(new_item(0))
        else:
            lst.remove(list.__getitem__(lst, op[1] % len(lst)))
    elif kind == "reverse":
        lst.reverse()
    elif kind == "sort":
        lst.sort(reverse=bool(op[1]))
    elif kind == "clear":
        lst.clear()
    elif kind == "setfocus":
        lst.focus = op[1]
    else:
        raise AssertionError(op)
    return None


def expected_focus(old, new, fi, op):
    """Cell-tracking focus rule.  old/new are lists of items (identity); fi old focus index.
    Returns a set of acceptable new focus values."""
    if not new:
        return {None}
    if not old:
        # focus of an empty list is reported as None; after it gains items any in-range stored
        # index is the code's business; the property only demands a valid index -> first item is
        # what every caller observes (internal _focus is reset to 0 by the setter on empty lists)
        return set(range(len(new)))
    kind = op[0]
    fitem = old[fi]
    if kind in ("sort",):
        return {i for i, x in enumerate(new) if x is fitem}
    if kind == "reverse":
        return {len(new) - fi - 1}
    if kind == "imul":
        return {fi}
    # generic: compute via index bookkeeping over the slice that the op touches
    n = len(old)
    if kind in ("set", "del", "pop"):
        i = op[1]
        if i is None:
            i = -1
        if i < 0:
            i += n
        idx = [i]
        replaced_in_place = kind == "set"
        newcount = 1 if kind == "set" else 0
        step1 = True
    elif kind == "remove":
        i = op[1] % n if op[1] is not None else None
        if i is None:
            return {fi}
        # list.remove removes the first equal (identical) item
        i = next(k for k, x in enumerate(old) if x is old[i])
        idx, newcount, step1 = [i], 0, True
    elif kind in ("setslice", "delslice"):
        start, stop, step = slice(op[1], op[2], op[3]).indices(n)
        idx = list(range(start, stop, step))
        newcount = op[4] if kind == "setslice" else 0
        step1 = step == 1
        if step1 and not idx:
            # pure insertion at `start`
            return {fi + newcount if fi >= start else fi}
    elif kind == "insert":
        i = op[1]
        if i < 0:
            i = max(0, i + n)
        i = min(i, n)
        return {fi + 1 if fi >= i else fi}
    elif kind in ("append", "extend", "iadd", "get", "setfocus"):
        return {fi}
    elif kind == "clear":
        return {None}
    else:
        raise AssertionError(op)

    removed = sorted(idx)
    if not step1:
        if kind == "setslice":
            return {fi}  # extended slice assignment replaces in place
        # extended slice deletion
        if fi not in removed:
            return {fi - sum(1 for r in removed if r < fi)}
        following = [k for k in range(fi + 1, n) if k not in removed]
        if following:
            return {following[0] - sum(1 for r in removed if r < following[0])}
        return {len(new) - 1}
    # step 1 contiguous range removed[0]..removed[-1], `newcount` items take its place
    lo, hi = removed[0], removed[-1] + 1
    if fi < lo:
        return {fi}
    if fi >= hi:
        return {fi + newcount - (hi - lo)}
    # focus inside the range
    if fi - lo < newcount:
        return {fi}  # replaced in place
    if hi < n:
        return {hi + newcount - (hi - lo)}  # the item following the removed ones
    return {len(new) - 1}


def is_nontrivial_single(case):
    n, fi, op = case["n"], case["focus"], case["op"]
    k = op[0]
    if k in ("setslice", "delslice"):
        start, stop, step = slice(op[1], op[2], op[3]).indices(n)
        rng = range(start, stop, step)
        return step != 1 or len(rng) == 0 or (fi is not None and fi in rng)
    if k in ("set", "del", "pop", "remove", "insert"):
        i = op[1]
        if i is None:
            return fi == n - 1
        return n > 0 and -n <= i < n and (i % n == fi)
    return k in ("reverse", "sort", "imul")


def check_single(case):
    """case: {"n": size, "focus": index|None, "op": [...]}"""
    n, fi, op = case["n"], case["focus"], case["op"]
    items = [Item(i) for i in range(n)]
    fresh = {}

    def new_item(k):
        return fresh.setdefault(k, Item(100 + k))

    model = list(items)
    real = MonitoredFocusList(items, focus=fi if fi is not None else 0)
    log = []
    real.set_modified_callback(lambda: log.append(("modified", list(real))))
    real.set_focus_changed_callback(lambda f: log.append(("focus", f)))
    _compare_step(real, model, op, new_item, log, focus_rule=True, fi_before=real.focus)


def _compare_step(real, model, op, new_item, log, focus_rule, fi_before, has_focus_cb=True):
    old = list(model)
    exc_m = exc_r = None
    ret_m = ret_r = None
    if op[0] == "setfocus":
        exc_m = None if (isinstance(op[1], int) and 0 <= op[1] < len(model)) or not model else IndexError
        ret_m = None
    else:
        try:
            ret_m = apply_op(model, op, new_item)
        except Exception as e:  # noqa: BLE001
            exc_m = type(e)
    del log[:]
    try:
        ret_r = apply_op(real, op, new_item)
    except Exception as e:  # noqa: BLE001
        exc_r = type(e)
        exc_r_obj = e
    if exc_m is not exc_r:
        if exc_r is not None and exc_m is None:
            raise Violation("same-errors", f"{op}: list accepts, monitored list raised {exc_r_obj!r}") from exc_r_obj
        raise Violation("same-errors", f"{op}: list raised {exc_m}, monitored list raised {exc_r}")
    cur = list.__getitem__(real, slice(None))
    if len(cur) != len(model) or any(a is not b for a, b in zip(cur, model)):
        raise Violation("same-contents", f"{op} on {old}: list gives {model}, monitored list holds {cur}")
    if ret_m is not ret_r:
        raise Violation("same-result", f"{op}: list returned {ret_m}, monitored list {ret_r}")
    mods = [e for e in log if e[0] == "modified"]
    changed = len(old) != len(model) or any(a is not b for a, b in zip(old, model))
    if exc_m is not None:
        if mods:
            raise Violation("modified-on-failure", f"{op} failed with {exc_m.__name__} but modified fired")
    else:
        if len(mods) > 1:
            raise Violation("modified-once", f"{op}: modified fired {len(mods)} times")
        if changed and not mods:
            raise Violation("modified-fires", f"{op} changed the contents but modified did not fire")
    if not focus_rule:
        return
    f = real.focus
    if not model:
        if f is not None:
            raise Violation("focus-none-iff-empty", f"empty list reports focus {f}")
    else:
        if not isinstance(f, int) or not 0 <= f < len(model):
            raise Violation("focus-in-range", f"{op} on {old} focus {fi_before}: focus now {f!r}, len {len(model)}")
    if exc_m is None:
        if op[0] == "setfocus":
            exp = {op[1]} if model else {None}
        else:
            exp = expected_focus(old, model, fi_before, op) if old else ({None} if not model else set(range(len(model))))
        if f not in exp:
            raise Violation(
                "focus-follows-item",
                f"{op} on {old} with focus {fi_before}: expected focus {sorted(exp, key=repr)}, got {f}; now {model}",
            )
    else:
        if f != fi_before:
            raise Violation("unchanged-on-failure", f"{op} failed but focus moved {fi_before} -> {f}")
    if has_focus_cb:
        fc = [e[1] for e in log if e[0] == "focus"]
        if fi_before is not None and f is not None:
            if (fi_before != f) != bool(fc):
                raise Violation(
                    "focus-changed-callback",
                    f"{op} on {old}: focus {fi_before} -> {f} but focus_changed fired {fc}",
                )
            if fc and fc[-1] != f:
                raise Violation("focus-changed-callback", f"{op}: callback got {fc}, focus is {f}")


# ---------------------------------------------------------------------------------------------
# sequences on the five list classes


def _mk_target(cls, n):
    items = [Item(i) for i in range(n)]
    if cls == "ML":
        real = MonitoredList(items)
    elif cls == "MFL":
        real = MonitoredFocusList(items)
    elif cls == "SLW":
        real = urwid.SimpleListWalker(items)
    elif cls == "SFLW":
        real = urwid.SimpleFocusListWalker(items)
    else:
        raise AssertionError(cls)
    return real, items


def check_seq(case):
    """case: {"cls":..., "n":..., "focus":..., "ops":[...]}"""
    cls, n, ops = case["cls"], case["n"], case["ops"]
    counter = itertools.count(100)
    if cls == "PILE":
        return _check_seq_pile(case)
    real, items = _mk_target(cls, n)
    model = list(items)
    log = []
    if cls in ("ML", "MFL"):
        real.set_modified_callback(lambda: log.append(("modified", None)))
    else:
        urwid.connect_signal(real, "modified", lambda: log.append(("modified", None)))
    has_cb = cls == "MFL"
    if has_cb:
        real.set_focus_changed_callback(lambda f: log.append(("focus", f)))
    focus_rule = cls in ("MFL", "SFLW")
    if focus_rule and n and case.get("focus") is not None:
        real.focus = case["focus"] % n
    for op in ops:
        if op[0] == "setfocus" and not focus_rule:
            continue
        if op[0] == "setfocus" and cls == "SFLW":
            pass
        fresh = {}
        base = next(counter) * 10

        def new_item(k, fresh=fresh, base=base):
            return fresh.setdefault(k, Item(base + k))

        _compare_step(real, model, op, new_item, log, focus_rule, real.focus if focus_rule else None, has_focus_cb=has_cb)
        if cls == "SLW":
            f = real.focus
            if model and not (isinstance(f, int) and 0 <= f < len(model)):
                raise Violation("focus-in-range", f"SimpleListWalker focus {f!r} with {len(model)} items after {op}")


def _check_seq_pile(case):
    n, ops = case["n"], case["ops"]
    widgets = [urwid.Text(str(i)) for i in range(n)]
    pile = urwid.Pile(widgets)
    real = pile.contents
    model = list(real)
    counter = itertools.count(100)
    if n and case.get("focus") is not None:
        pile.focus_position = case["focus"] % n
    log = []
    orig_modified = real._modified  # Pile's own callback: keep it, and log the call

    def modified():
        log.append(("modified", None))
        orig_modified()

    real.set_modified_callback(modified)
    for op in ops:
        if op[0] in ("sort", "setfocus", "imul"):
            continue
        fresh = {}
        base = next(counter) * 10

        def new_item(k, fresh=fresh, base=base):
            return fresh.setdefault(k, (urwid.Text(str(base + k)), pile.options()))

        _compare_step(real, model, op, new_item, log, True, real.focus, has_focus_cb=False)
        # container view of the same fact
        if model:
            if pile.focus is not model[real.focus][0]:
                raise Violation("focus-is-child", f"Pile.focus is not contents[focus_position][0] after {op}")
        elif pile.focus is not None:
            raise Violation("focus-none-iff-empty", "empty Pile reports a focus widget")


SUBS = {"single": check_single, "seq": check_seq}


# ---------------------------------------------------------------------------------------------
# enumeration and strategies

IDX = [None, *range(-7, 8)]
STEPS = [None, 1, 2, 3, -1, -2]


def single_ops():
    for i in range(-7, 8):
        yield ["get", i]
        yield ["set", i]
        yield ["del", i]
        yield ["insert", i]
        yield ["pop", i]
        yield ["setfocus", i]
    yield ["pop", None]
    for i in [None, 0, 1, 2, 3, 4, 5]:
        yield ["remove", i]
    for k in range(0, 4):
        yield ["extend", k]
        yield ["iadd", k]
    for k in range(-1, 4):
        yield ["imul", k]
    yield ["append"]
    yield ["reverse"]
    yield ["sort", 0]
    yield ["sort", 1]
    yield ["clear"]
    for a in IDX:
        for b in IDX:
            for c in STEPS:
                yield ["delslice", a, b, c]
                for k in range(0, 4):
                    yield ["setslice", a, b, c, k]


def single_cases(max_n):
    ops = list(single_ops())
    for n in range(0, max_n + 1):
        for fi in (range(n) if n else [None]):
            for op in ops:
                yield {"n": n, "focus": fi, "op": op}


_idx = st.one_of(st.none(), st.integers(-9, 9))
_step = st.sampled_from([None, 1, 1, 2, 3, -1, -2, -3])
_op = st.one_of(
    st.tuples(st.just("get"), st.integers(-9, 9)),
    st.tuples(st.just("set"), st.integers(-9, 9)),
    st.tuples(st.just("del"), st.integers(-9, 9)),
    st.tuples(st.just("insert"), st.integers(-9, 9)),
    st.tuples(st.just("pop"), _idx),
    st.tuples(st.just("setfocus"), st.integers(-2, 9)),
    st.tuples(st.just("remove"), st.one_of(st.none(), st.integers(0, 9))),
    st.tuples(st.just("extend"), st.integers(0, 3)),
    st.tuples(st.just("iadd"), st.integers(0, 3)),
    st.tuples(st.just("imul"), st.integers(-1, 3)),
    st.tuples(st.just("append")),
    st.tuples(st.just("reverse")),
    st.tuples(st.just("sort"), st.integers(0, 1)),
    st.tuples(st.just("clear")),
    st.tuples(st.just("delslice"), _idx, _idx, _step),
    st.tuples(st.just("setslice"), _idx, _idx, _step, st.integers(0, 4)),
).map(list)

_seq_case = st.fixed_dictionaries(
    {
        "cls": st.sampled_from(["ML", "MFL", "MFL", "SLW", "SFLW", "SFLW", "PILE"]),
        "n": st.integers(0, 7),
        "focus": st.one_of(st.none(), st.integers(0, 6)),
        "ops": st.lists(_op, min_size=1, max_size=30),
    }
)


def _seq_nontrivial(case):
    ops = case["ops"]
    return len(ops) >= 3 and any(o[0] in ("setslice", "delslice") for o in ops)


def _seq_classes(case):
    out = [f"seq:{case['cls']}"]
    if any(o[0] in ("setslice", "delslice") and o[3] not in (None, 1) for o in case["ops"]):
        out.append("seq:extended-slice")
    if any(o[0] == "imul" for o in case["ops"]):
        out.append("seq:imul")
    return out


def _single_classes(case):
    op = case["op"]
    out = [f"single:{op[0]}"]
    if op[0] in ("setslice", "delslice"):
        start, stop, step = slice(op[1], op[2], op[3]).indices(case["n"])
        if step < 0:
            out.append("single:negative-step")
        elif step > 1:
            out.append("single:step>1")
        elif stop < start:
            out.append("single:reversed-empty")
        if case["focus"] is not None and case["focus"] in range(start, stop, step):
            out.append("single:focus-in-slice")
    return out


def shard(ctx):
    max_n = ctx.scale(5, 6)
    ctx.sweep("single", single_cases(max_n), nontrivial=is_nontrivial_single, classify=_single_classes,
              exhaustive_name=f"single ops, size<= {max_n}")
    if ctx.failure is None:
        ctx.given("seq", _seq_case, ctx.scale(1500, 20000), nontrivial=_seq_nontrivial, classify=_seq_classes)


# ---------------------------------------------------------------------------------------------
# known findings (active only if listed in known_findings.json with status "known")

KNOWN = {}
