"""C16 — focus-tracking lists behave as Python lists whose focus follows its item.

Oracle: a built-in ``list`` receives the same call (contents / exception type / unchanged on
failure) plus a cell-tracking focus rule (see DESIGN.md C16).
"""
from __future__ import annotations

import itertools
import json
import warnings

from hypothesis import strategies as st

import urwid
from urwid.widget.monitored_list import MonitoredFocusList, MonitoredList
from vlib.runner import Discard, Violation

PROPERTY = "C16"
LEVEL = "exploration"
RULE = (
    "single: exhaustive enumeration of (list size 0..5 [6 thorough], every initial focus, every single "
    "list operation with every argument: item get/set/del with index -7..7, slice set/del with a,b in "
    "-7..7|None and step in None,1,2,3,-1,-2 and 0..3 new items, insert, append, extend, pop, remove, "
    "reverse, sort with every keyword combination (reverse absent/False/True x key absent or value % m, "
    "m in 1..3, so that items tie under the key), +=, *= n in -1..3, clear) on MonitoredFocusList, compared "
    "with a built-in list and the cell-tracking focus rule; the same op kinds on long lists (300 and 1025 "
    "items [and 4099 thorough]) with the focus at both ends, next to them and in the middle and every "
    "argument taken from the landmark positions (ends, one past the ends, focus-1..focus+1; non-negative and "
    "negative spelling); seq: Hypothesis op sequences (<=30 ops; <=12 on long lists of 70..1100 items, one "
    "case in eight) on MonitoredList, MonitoredFocusList, SimpleListWalker, SimpleFocusListWalker and the "
    "contents of a Pile, a Columns and a GridFlow; index arguments are plain ints or relative to the state "
    "at the time of the call (focus+d, its negative spelling, middle+d, len+d); a container is built with "
    "the initial focus given to its constructor (absent, any index in or out of range, a child widget, a "
    "foreign widget: a constructor that returns must leave a list satisfying the focus invariant) and its "
    "focus is moved as contents.focus = i, focus_position = i or the legacy set_focus(i); legacy: the other "
    "monitored lists a container hands out (Pile.widget_list / item_types, Columns.widget_list / column_types / "
    "box_columns, GridFlow.cells): exhaustive enumeration of every such list x 0..3 [4 thorough] children x "
    "every focus x every single list operation with every argument (index -5..5, the same slice / count / "
    "keyword domains as single), and Hypothesis op sequences (<=20 ops, 0..7 children, the list read once or "
    "again before every call, the container's focus moved between calls), compared with a built-in list "
    "(contents, errors, result, modified callback); after every call the container's contents satisfy the "
    "focus invariant and hold the widgets the widget list holds; reentrant: histories in which the listeners of "
    "the modified callback (1..5, connected in order to a SimpleListWalker / SimpleFocusListWalker, called in order "
    "by the one callback of a MonitoredList / MonitoredFocusList) count their notifications, copy the list each "
    "time, and - those with a script - perform the next list operation of their script on the list each time they "
    "are notified (of a top-level call or of a call made by a listener, not deeper): exhaustive enumeration of "
    "every kind of call (29: changing the contents, leaving them, failing) x every kind of call made by a listener "
    "during its notification x the editing listener's place (alone, first or last of two, middle of three) x the "
    "four classes, and Hypothesis histories (<=10 top-level calls, scripts of <=5 calls, several editing "
    "listeners); the built-in list receives every call, top-level and nested, in the order made; for every call "
    "at every depth: same error, same contents, same result, every listener notified at least once per successful "
    "content-changing call and at most once per successful call (this call and those nested in it), never by a "
    "failed one, and - if the contents changed - last notified when the list held what it holds when the call "
    "returns; when a top-level call returns: the focus invariant, and the focus rule composed over the calls in the "
    "order made. Every case is "
    "passed through JSON before use, so generated and replayed cases are the same values. Non-trivial: the "
    "operation's slice touches the focus cell, has a non-unit or negative step, or is empty/reversed "
    "(single); a sequence with >=3 content-changing ops of which one is a slice op (seq, legacy sequences); a "
    "content-changing op on a container that has children (legacy single ops); a call made by a listener succeeded "
    "and changed the contents, judged on a reference list that calls back after every successful mutator (reentrant)."
)
ASSUMPTIONS = [
    "CPython's built-in list is the reference for contents and exception types (list.sort is stable, also "
    "with reverse=True, so the model fixes the place of every item that ties under the key)",
    "new items are passed as list/tuple (the type hints say Collection); iterators are not generated",
    "items are identity-distinct objects with distinct sort values, so 'same item' is unambiguous except "
    "after *= n (duplicates), where sort() may pick any index holding the identical object",
    "container children are Text widgets with default options; a container constructor may reject an initial "
    "focus that designates no child (IndexError / ValueError), nothing is asserted then",
    "container focus spellings: contents.focus = i is ignored on an empty list (documented); focus_position = i "
    "and set_focus(i) raise IndexError for every invalid index (documented)",
    "the containers' backwards-compatible list views are monitored lists used for container contents in the sense "
    "of the statement: the list clauses (contents, errors, result, modified callback) apply to them, the focus "
    "clauses to the container's contents behind them; how (type, amount) and box-column lists longer or shorter "
    "than the children map onto the children is not asserted; new (type, amount) entries are valid old or new "
    "type names with non-negative amounts, nothing is rendered",
    "a modified listener may perform list operations on the list it listens to (the callers the walkers document: "
    "handlers that trim or fill in the list); such a call is a call of the history like any other: the callback "
    "clauses apply to it, its own notifications are delivered before it returns, inside those of the enclosing call. "
    "Nothing is asserted about the focus index as read from inside a callback, nor about the focus-changed callback "
    "of a call during which a listener edited the list; listeners are not connected or disconnected during a "
    "history; a listener that edits does so a bounded number of times (its script), so every history ends",
]


class Item:
    __slots__ = ("v",)

    def __init__(self, v):
        self.v = v

    def __lt__(self, other):
        return self.v < other.v

    def __repr__(self):
        return f"I{self.v}"


# ---------------------------------------------------------------------------------------------
# applying one op to a target list-like object


def _sort_value(x):
    """integer sort value of an item: Item.v, the number shown by a container child (widget, options) or by a
    widget, an int itself, the amount of a legacy (type, amount) options pair (None counts as 0)"""
    if isinstance(x, Item):
        return x.v
    if isinstance(x, int):
        return x
    if isinstance(x, urwid.Widget):
        return int(x.text)
    if isinstance(x[0], urwid.Widget):
        return int(x[0].text)
    return int(x[1] or 0)


def apply_op(lst, op, new_item):
    """Apply op to lst (real or model).  new_item(k) -> the k-th fresh item for this op."""
    kind = op[0]
    if kind == "get":
        return lst[op[1]]
    if kind == "set":
        lst[op[1]] = new_item(0)
    elif kind == "del":
        del lst[op[1]]
    elif kind == "setslice":
        lst[slice(op[1], op[2], op[3])] = [new_item(i) for i in range(op[4])]
    elif kind == "delslice":
        del lst[slice(op[1], op[2], op[3])]
    elif kind == "insert":
        lst.insert(op[1], new_item(0))
    elif kind == "append":
        lst.append(new_item(0))
    elif kind == "extend":
        lst.extend([new_item(i) for i in range(op[1])])
    elif kind == "iadd":
        lst += [new_item(i) for i in range(op[1])]
    elif kind == "imul":
        lst *= op[1]
    elif kind == "pop":
        if op[1] is None:
            return lst.pop()
        return lst.pop(op[1])
    elif kind == "remove":
        # remove the item currently at index op[1] (mod len), or a foreign item when empty/None
        if op[1] is None or len(lst) == 0:
            lst.remove(new_item(0))
        else:
            lst.remove(list.__getitem__(lst, op[1] % len(lst)))
    elif kind == "reverse":
        lst.reverse()
    elif kind == "sort":
        # ["sort", reverse] or ["sort", reverse, keymod]: keymod None -> no key=, else key = value % keymod
        # (items that tie under the key; list.sort is stable, also with reverse=True)
        keymod = op[2] if len(op) > 2 else None
        if keymod is None:
            lst.sort(reverse=bool(op[1]))
        elif op[1] is None:
            lst.sort(key=lambda x: _sort_value(x) % keymod)
        else:
            lst.sort(key=lambda x: _sort_value(x) % keymod, reverse=bool(op[1]))
    elif kind == "clear":
        lst.clear()
    elif kind == "setfocus":
        lst.focus = op[1]
    else:
        raise AssertionError(op)
    return None


def expected_focus(old, new, fi, op):
    """Cell-tracking focus rule.  old/new are lists of items (identity); fi old focus index.
    Returns a set of acceptable new focus values."""
    if not new:
        return {None}
    if not old:
        # focus of an empty list is reported as None; after it gains items any in-range stored
        # index is the code's business; the property only demands a valid index -> first item is
        # what every caller observes (internal _focus is reset to 0 by the setter on empty lists)
        return set(range(len(new)))
    kind = op[0]
    fitem = old[fi]
    if kind in ("sort",):
        return {i for i, x in enumerate(new) if x is fitem}
    if kind == "reverse":
        return {len(new) - fi - 1}
    if kind == "imul":
        return {fi}
    # generic: compute via index bookkeeping over the slice that the op touches
    n = len(old)
    if kind in ("set", "del", "pop"):
        i = op[1]
        if i is None:
            i = -1
        if i < 0:
            i += n
        idx = [i]
        replaced_in_place = kind == "set"
        newcount = 1 if kind == "set" else 0
        step1 = True
    elif kind == "remove":
        i = op[1] % n if op[1] is not None else None
        if i is None:
            return {fi}
        # list.remove removes the first equal (identical) item
        i = next(k for k, x in enumerate(old) if x is old[i])
        idx, newcount, step1 = [i], 0, True
    elif kind in ("setslice", "delslice"):
        start, stop, step = slice(op[1], op[2], op[3]).indices(n)
        idx = list(range(start, stop, step))
        newcount = op[4] if kind == "setslice" else 0
        step1 = step == 1
        if step1 and not idx:
            # pure insertion at `start`
            return {fi + newcount if fi >= start else fi}
    elif kind == "insert":
        i = op[1]
        if i < 0:
            i = max(0, i + n)
        i = min(i, n)
        return {fi + 1 if fi >= i else fi}
    elif kind in ("append", "extend", "iadd", "get", "setfocus"):
        return {fi}
    elif kind == "clear":
        return {None}
    else:
        raise AssertionError(op)

    removed = sorted(idx)
    if not step1:
        if kind == "setslice":
            return {fi}  # extended slice assignment replaces in place
        # extended slice deletion
        if fi not in removed:
            return {fi - sum(1 for r in removed if r < fi)}
        following = [k for k in range(fi + 1, n) if k not in removed]
        if following:
            return {following[0] - sum(1 for r in removed if r < following[0])}
        return {len(new) - 1}
    # step 1 contiguous range removed[0]..removed[-1], `newcount` items take its place
    lo, hi = removed[0], removed[-1] + 1
    if fi < lo:
        return {fi}
    if fi >= hi:
        return {fi + newcount - (hi - lo)}
    # focus inside the range
    if fi - lo < newcount:
        return {fi}  # replaced in place
    if hi < n:
        return {hi + newcount - (hi - lo)}  # the item following the removed ones
    return {len(new) - 1}


def is_nontrivial_single(case):
    n, fi, op = case["n"], case["focus"], case["op"]
    k = op[0]
    if k in ("setslice", "delslice"):
        start, stop, step = slice(op[1], op[2], op[3]).indices(n)
        rng = range(start, stop, step)
        return step != 1 or len(rng) == 0 or (fi is not None and fi in rng)
    if k in ("set", "del", "pop", "remove", "insert"):
        i = op[1]
        if i is None:
            return fi == n - 1
        return n > 0 and -n <= i < n and (i % n == fi)
    return k in ("reverse", "sort", "imul")


def check_single(case):
    """case: {"n": size, "focus": index|None, "op": [...]}"""
    case = json.loads(json.dumps(case))  # generated and replayed cases are the same objects: plain JSON values
    n, fi, op = case["n"], case["focus"], case["op"]
    items = [Item(i) for i in range(n)]
    fresh = {}

    def new_item(k):
        return fresh.setdefault(k, Item(100 + k))

    model = list(items)
    real = MonitoredFocusList(items, focus=fi if fi is not None else 0)
    log = []
    real.set_modified_callback(lambda: log.append(("modified", list(real))))
    real.set_focus_changed_callback(lambda f: log.append(("focus", f)))
    _compare_step(real, model, op, new_item, log, focus_rule=True, fi_before=real.focus)


class _Short:
    """a list shown in full when short, abbreviated when long (messages only)"""

    def __init__(self, lst):
        self.lst = lst

    def __repr__(self):
        lst = self.lst
        if len(lst) <= 16:
            return repr(lst)
        return f"[{', '.join(map(repr, lst[:4]))}, ... {len(lst)} items ..., {', '.join(map(repr, lst[-3:]))}]"

    __str__ = __repr__


def _compare_step(real, model, op, new_item, log, focus_rule, fi_before, has_focus_cb=True, real_apply=None):
    """One op on the model and on the real list, then every clause of the property.
    real_apply(op, new_item): alternative way to perform the op on the real object (container spellings)."""
    old = list(model)
    exc_m = exc_r = None
    ret_m = ret_r = None
    if op[0] == "setfocus":
        # spelling 0: list.focus = i (ignored on an empty list, documented); spellings 1, 2: the container's
        # focus_position = i / set_focus(i), documented to raise IndexError for every invalid index
        via_container = len(op) > 2 and op[2]
        in_range = isinstance(op[1], int) and 0 <= op[1] < len(model)
        exc_m = None if in_range or (not model and not via_container) else IndexError
        ret_m = None
    else:
        try:
            ret_m = apply_op(model, op, new_item)
        except Exception as e:  # noqa: BLE001
            exc_m = type(e)
    del log[:]
    try:
        ret_r = real_apply(op, new_item) if real_apply is not None else apply_op(real, op, new_item)
    except Exception as e:  # noqa: BLE001
        exc_r = type(e)
        exc_r_obj = e
    if exc_m is not exc_r:
        if exc_r is not None and exc_m is None:
            raise Violation("same-errors", f"{op}: list accepts, monitored list raised {exc_r_obj!r}") from exc_r_obj
        raise Violation("same-errors", f"{op}: list raised {exc_m}, monitored list raised {exc_r}")
    cur = list.__getitem__(real, slice(None))
    if len(cur) != len(model) or any(a is not b for a, b in zip(cur, model)):
        raise Violation("same-contents", f"{op} on {_Short(old)}: list gives {_Short(model)}, monitored list holds {_Short(cur)}")
    if ret_m is not ret_r:
        raise Violation("same-result", f"{op}: list returned {ret_m}, monitored list {ret_r}")
    mods = [e for e in log if e[0] == "modified"]
    changed = len(old) != len(model) or any(a is not b for a, b in zip(old, model))
    if exc_m is not None:
        if mods:
            raise Violation("modified-on-failure", f"{op} failed with {exc_m.__name__} but modified fired")
    else:
        if len(mods) > 1:
            raise Violation("modified-once", f"{op}: modified fired {len(mods)} times")
        if changed and not mods:
            raise Violation("modified-fires", f"{op} changed the contents but modified did not fire")
    if not focus_rule:
        return
    f = real.focus
    if not model:
        if f is not None:
            raise Violation("focus-none-iff-empty", f"empty list reports focus {f}")
    else:
        if not isinstance(f, int) or not 0 <= f < len(model):
            raise Violation("focus-in-range", f"{op} on {_Short(old)} focus {fi_before}: focus now {f!r}, len {len(model)}")
    if exc_m is None:
        if op[0] == "setfocus":
            exp = {op[1]} if model else {None}
        else:
            exp = expected_focus(old, model, fi_before, op) if old else ({None} if not model else set(range(len(model))))
        if f not in exp:
            raise Violation(
                "focus-follows-item",
                f"{op} on {_Short(old)} with focus {fi_before}: expected focus {sorted(exp, key=repr)}, got {f}; now {_Short(model)}",
            )
    else:
        if f != fi_before:
            raise Violation("unchanged-on-failure", f"{op} failed but focus moved {fi_before} -> {f}")
    if has_focus_cb:
        fc = [e[1] for e in log if e[0] == "focus"]
        if fi_before is not None and f is not None:
            if (fi_before != f) != bool(fc):
                raise Violation(
                    "focus-changed-callback",
                    f"{op} on {_Short(old)}: focus {fi_before} -> {f} but focus_changed fired {fc}",
                )
            if fc and fc[-1] != f:
                raise Violation("focus-changed-callback", f"{op}: callback got {fc}, focus is {f}")


# ---------------------------------------------------------------------------------------------
# sequences on the five list classes


def _mk_target(cls, n):
    items = [Item(i) for i in range(n)]
    if cls == "ML":
        real = MonitoredList(items)
    elif cls == "MFL":
        real = MonitoredFocusList(items)
    elif cls == "SLW":
        real = urwid.SimpleListWalker(items)
    elif cls == "SFLW":
        real = urwid.SimpleFocusListWalker(items)
    else:
        raise AssertionError(cls)
    return real, items


CONTAINERS = ("PILE", "COLS", "GRID")


def _resolve_index(x, n, focus):
    """An index argument is an int or a state-relative [anchor, d]: "f" focus+d, "nf" the negative spelling of
    focus+d, "m" middle+d, "e" len+d (so ["e", -1] is the last item, ["e", 0] one past it)."""
    if not isinstance(x, list):
        return x
    anchor, d = x
    base = focus if isinstance(focus, int) else n // 3
    if anchor == "f":
        return base + d
    if anchor == "nf":
        return base + d - n
    if anchor == "m":
        return n // 2 + d
    if anchor == "e":
        return n + d
    raise AssertionError(x)


_INDEX_ARGS = {"get": (1,), "set": (1,), "del": (1,), "insert": (1,), "pop": (1,), "setfocus": (1,),
               "remove": (1,), "setslice": (1, 2), "delslice": (1, 2)}


def resolve_op(op, n, focus):
    """Replace state-relative index arguments by plain ints (computed now, from the current state)."""
    pos = _INDEX_ARGS.get(op[0], ())
    if not any(isinstance(op[i], list) for i in pos if i < len(op)):
        return op
    op = list(op)
    for i in pos:
        if i < len(op):
            op[i] = _resolve_index(op[i], n, focus)
    return op


def check_seq(case):
    """case: {"cls":..., "n":..., "focus":..., "ops":[...]} (+ "ctor_focus" for the container classes)"""
    case = json.loads(json.dumps(case))  # generated and replayed cases are the same objects: plain JSON values
    cls, n, ops = case["cls"], case["n"], case["ops"]
    counter = itertools.count(100)
    if cls in CONTAINERS:
        return _check_seq_container(case)
    real, items = _mk_target(cls, n)
    model = list(items)
    log = []
    if cls in ("ML", "MFL"):
        real.set_modified_callback(lambda: log.append(("modified", None)))
    else:
        urwid.connect_signal(real, "modified", lambda: log.append(("modified", None)))
    has_cb = cls == "MFL"
    if has_cb:
        real.set_focus_changed_callback(lambda f: log.append(("focus", f)))
    focus_rule = cls in ("MFL", "SFLW")
    if focus_rule and _initial_focus(case) is not None:
        real.focus = _initial_focus(case)
    for op in ops:
        if op[0] == "setfocus" and not focus_rule:
            continue
        if op[0] == "setfocus":
            op = op[:2]  # the container spellings do not exist here
        op = resolve_op(op, len(model), real.focus if cls != "ML" else None)
        fresh = {}
        base = next(counter) * 10

        def new_item(k, fresh=fresh, base=base):
            return fresh.setdefault(k, Item(base + k))

        _compare_step(real, model, op, new_item, log, focus_rule, real.focus if focus_rule else None, has_focus_cb=has_cb)
        if cls == "SLW":
            f = real.focus
            if model and not (isinstance(f, int) and 0 <= f < len(model)):
                raise Violation("focus-in-range", f"SimpleListWalker focus {f!r} with {len(model)} items after {op}")


def _mk_container(cls, widgets, ctor_focus):
    """Build the container with the initial focus spelled through its constructor: None, an index (any int) or
    ["w", i] the i-th child widget / ["w", None] a widget that is not a child."""
    if isinstance(ctor_focus, list):
        i = ctor_focus[1]
        arg = urwid.Text("foreign") if i is None or not widgets else widgets[i % len(widgets)]
    else:
        arg = ctor_focus
    if cls == "PILE":
        return urwid.Pile(widgets, focus_item=arg)
    if cls == "COLS":
        return urwid.Columns(widgets, focus_column=arg)
    if cls == "GRID":
        return urwid.GridFlow(widgets, 6, 1, 0, "left", focus=arg)
    raise AssertionError(cls)


def _check_seq_container(case):
    cls, n, ops = case["cls"], case["n"], case["ops"]
    widgets = [urwid.Text(str(i)) for i in range(n)]
    arg = _ctor_focus_arg(case)
    try:
        cont = _mk_container(cls, widgets, arg)
    except (IndexError, ValueError):
        # the constructor may refuse an initial focus that designates no child; then there is no list to check
        if arg is None or (isinstance(arg, int) and 0 <= arg < n) or (isinstance(arg, list) and arg[1] is not None and n):
            raise  # a valid initial focus (or none) must be accepted
        return
    real = cont.contents
    model = list(real)
    counter = itertools.count(100)
    # the invariant holds from the start, whatever initial focus the constructor was given
    f = real.focus
    if not model:
        if f is not None:
            raise Violation("focus-none-iff-empty", f"new empty {cls} contents report focus {f!r}")
    elif not isinstance(f, int) or not 0 <= f < len(model):
        raise Violation(
            "focus-in-range",
            f"{cls} built with {n} children and initial focus {arg!r}: contents.focus is {f!r}",
        )
    if _initial_focus(case) is not None:
        cont.focus_position = _initial_focus(case)
    log = []
    orig_modified = real._modified  # the container's own callbacks: keep them, and log the calls
    orig_focus_changed = real._focus_changed

    def modified():
        log.append(("modified", None))
        orig_modified()

    def focus_changed(f):
        log.append(("focus", f))
        orig_focus_changed(f)

    real.set_modified_callback(modified)
    real.set_focus_changed_callback(focus_changed)

    def real_apply(op, new_item):
        if op[0] == "setfocus" and len(op) > 2 and op[2]:
            if op[2] == 1:
                cont.focus_position = op[1]
            else:
                with warnings.catch_warnings():
                    warnings.simplefilter("ignore", DeprecationWarning)
                    cont.set_focus(op[1])  # legacy spelling, still supported (deprecation shim)
            return None
        return apply_op(real, op, new_item)

    for op in ops:
        if op[0] == "imul" or (op[0] == "sort" and (len(op) < 3 or op[2] is None)):
            continue  # (widget, options) tuples have no order of their own: sort needs key=
        op = resolve_op(op, len(model), real.focus)
        fresh = {}
        base = next(counter) * 10

        def new_item(k, fresh=fresh, base=base):
            return fresh.setdefault(k, (urwid.Text(str(base + k)), cont.options()))

        _compare_step(real, model, op, new_item, log, True, real.focus, has_focus_cb=True, real_apply=real_apply)
        # container view of the same fact
        if model:
            if cont.focus is not model[real.focus][0]:
                raise Violation("focus-is-child", f"{cls}.focus is not contents[focus_position][0] after {op}")
        elif cont.focus is not None:
            raise Violation("focus-none-iff-empty", f"empty {cls} reports a focus widget")


# ---------------------------------------------------------------------------------------------
# the monitored lists a container hands out beside .contents (backwards-compatible views, still supported)

# container -> {attribute: kind of item}.  "widget": the child widgets; "type": (type, amount) pairs, one per
# child; "index": the indexes of the box columns
LEGACY = {
    "PILE": {"widget_list": "widget", "item_types": "type"},
    "COLS": {"widget_list": "widget", "column_types": "type", "box_columns": "index"},
    "GRID": {"cells": "widget"},
}
LEGACY_LISTS = [(c, a) for c, attrs in LEGACY.items() for a in attrs]
# (type, amount) pairs in the old and the new spelling of the type names
_LEGACY_TYPES = [("weight", 1), ("flow", None), ("pack", None), ("weight", 3), ("fixed", 2), ("given", 4), ("weight", 0)]
_EMPTY_MARK = "[container empty before the call]"


def _mk_legacy_container(cls, widgets, box_mask):
    """children with mixed options (default, pack, weight 2), so that the (type, amount) views are not uniform"""
    if cls == "GRID":
        return urwid.GridFlow(widgets, 6, 1, 0, "left")
    spec = [w if i % 3 == 0 else ("pack", w) if i % 3 == 1 else ("weight", 2, w) for i, w in enumerate(widgets)]
    if cls == "PILE":
        return urwid.Pile(spec)
    return urwid.Columns(spec, box_columns=[i for i in range(len(widgets)) if box_mask >> i & 1])


def check_legacy(case):
    """case: {"cls": PILE|COLS|GRID, "attr": name of the list property, "n": children, "focus": index|None,
    "box": bit mask of the box columns (COLS), "refetch": bool, "ops": [...]}.
    The list is read from the container once (refetch false) or again before every op, as callers write
    ``pile.widget_list.append(w)``; ["setfocus", i] moves the container's focus between the list calls."""
    case = json.loads(json.dumps(case))
    cls, attr, n, ops = case["cls"], case["attr"], case["n"], case["ops"]
    kind = LEGACY[cls][attr]
    with warnings.catch_warnings(record=True) as caught:
        warnings.simplefilter("always")
        warnings.simplefilter("ignore", DeprecationWarning)  # the views say "use .contents" on every access
        _check_legacy(case, cls, attr, kind, n, ops)
    if caught:
        raise Discard()  # a container complaining about its children: mis-built case


def _check_legacy(case, cls, attr, kind, n, ops):
    widgets = [urwid.Text(str(i)) for i in range(n)]
    cont = _mk_legacy_container(cls, widgets, case.get("box") or 0)
    if _initial_focus(case) is not None:
        cont.focus_position = _initial_focus(case)
    counter = itertools.count(100)
    log = []

    def fetch():
        ml = getattr(cont, attr)
        inner = ml._modified  # the container's own callback: keep it, and log the calls

        def modified():
            log.append(("modified", None))
            inner()

        ml.set_modified_callback(modified)
        return ml

    def held():
        return [w for w, _ in cont.contents]

    real = fetch()
    model = list(real)
    if kind == "widget" and (len(model) != n or any(a is not b for a, b in zip(model, widgets))):
        raise Violation("container-holds-list", f"{cls}.{attr} of {n} children reads {_Short(model)}")
    first = True
    for op in ops:
        if op[0] == "setfocus":
            if cont.contents and isinstance(op[1], int):
                cont.focus_position = op[1] % len(cont.contents)
            continue
        if op[0] == "sort" and kind != "index" and (len(op) < 3 or op[2] is None):
            continue  # widgets have no order of their own, (type, None) pairs not always: sort needs key=
        if case.get("refetch") and not first:
            real = fetch()
            again = list(real)
            if kind == "widget" and (len(again) != len(model) or any(a is not b for a, b in zip(again, model))):
                raise Violation("container-holds-list", f"{cls}.{attr} read again gives {_Short(again)}, the list held {_Short(model)}")
            model = again
        first = False
        op = resolve_op(op, len(model), cont.contents.focus)
        fresh = {}
        base = next(counter) * 10

        def new_item(k, fresh=fresh, base=base):
            if k not in fresh:
                if kind == "widget":
                    fresh[k] = urwid.Text(str(base + k))
                elif kind == "type":
                    fresh[k] = tuple(_LEGACY_TYPES[(base // 10 + k) % len(_LEGACY_TYPES)])
                else:
                    fresh[k] = (base // 10 + 3 * k) % 9  # any int: indexes of no column are ignored
            return fresh[k]

        empty_before = not cont.contents
        try:
            _compare_step(real, model, op, new_item, log, False, None, has_focus_cb=False)
        except Violation as v:
            if empty_before and v.clause == "same-errors":
                raise Violation(v.clause, f"{cls}.{attr} {v.message} {_EMPTY_MARK}") from v
            raise Violation(v.clause, f"{cls}.{attr} {v.message}") from v
        # the container after the call: its focus-tracking contents satisfy the focus invariant, and hold the
        # widgets the list holds
        f = cont.contents.focus
        if not cont.contents:
            if f is not None or cont.focus is not None:
                raise Violation("focus-none-iff-empty", f"{cls} emptied through {attr} ({op}) reports focus {f!r}")
        elif not isinstance(f, int) or not 0 <= f < len(cont.contents):
            raise Violation("focus-in-range", f"{cls}.{attr} {op}: contents.focus is {f!r} with {len(cont.contents)} children")
        elif cont.focus is not cont.contents[f][0]:
            raise Violation("focus-is-child", f"{cls}.focus is not contents[focus_position][0] after {attr} {op}")
        if kind == "widget":
            now = held()
            if len(now) != len(model) or any(a is not b for a, b in zip(now, model)):
                raise Violation("container-holds-list", f"{cls}.{attr} {op}: the list holds {_Short(model)}, the {cls} {_Short(now)}")


# ---------------------------------------------------------------------------------------------
# histories in which the modified callback itself edits the list (calls nested in calls)

MAX_NEST = 2  # a listener edits the list while notified of a top-level call or of an edit nested in one, not deeper
_REENTRANT_MARK = "[after an edit made from inside the modified callback]"
_MUTATORS = ("__setitem__", "__delitem__", "__iadd__", "__imul__", "append", "extend", "insert", "pop", "remove",
             "reverse", "sort", "clear")


class _EndHistory(BaseException):
    """raised through the notifications under way to end a history after a recorded (deferred) finding"""


class _RefList(list):
    """The obvious reference: a built-in list that calls cb() after every successful mutating call.  Only used to
    profile a case (which nested edits take place) before it is run against urwid; it also keeps the oracle
    honest: every clause below holds for it by construction."""

    cb = staticmethod(lambda: None)


def _ref_mutator(name):
    plain = getattr(list, name)

    def method(self, *args, **kwargs):
        rval = plain(self, *args, **kwargs)
        self.cb()
        return rval

    return method


for _name in _MUTATORS:
    setattr(_RefList, _name, _ref_mutator(_name))


def _focus_after(old, new, fi, op):
    """acceptable focus values after one successful call (the rule of expected_focus, total)"""
    if op[0] == "setfocus":
        return {op[1]} if new else {None}
    if not new:
        return {None}
    if not old or fi is None:
        return set(range(len(new)))
    return expected_focus(old, new, fi, op)


def _run_reentrant(case, cls=None):
    """Interpret a re-entrant history; returns the profile of what took place.
    case: {"cls", "n", "focus", "handlers": [script, ...], "ops": [...]}.  Every handler is a listener of the
    list's modified callback (connected in the order given; MonitoredList / MonitoredFocusList take one callback,
    which calls them in that order).  A listener counts its notifications and copies the list each time; one with
    a script also performs the next op of its script on the list each time it is notified (while ops are left and
    the call it is notified of is nested less than MAX_NEST deep).  The model list receives every call, top-level
    and nested, in the order the calls are made."""
    cls = cls or case["cls"]
    n, ops = case["n"], case["ops"]
    if cls == "REF":
        items = [Item(i) for i in range(n)]
        real = _RefList(items)
    else:
        real, items = _mk_target(cls, n)
    model = list(items)
    focus_cls = cls in ("MFL", "SFLW")
    listeners = [{"count": 0, "mirror": list(items), "script": list(s), "pos": 0} for s in case["handlers"]]
    stack = []  # one frame per call in progress
    counter = itertools.count(100)
    prof = {"calls": 0, "nested_changed": 0, "nested_failed": 0, "nested_nochange": 0, "depth": 0, "deferred": None}
    fstate = {"exp": None, "fc": [], "broken": False}

    def fire(i):
        ls = listeners[i]
        ls["count"] += 1
        ls["mirror"] = list.__getitem__(real, slice(None))
        if ls["pos"] < len(ls["script"]) and len(stack) <= MAX_NEST:
            op = ls["script"][ls["pos"]]
            ls["pos"] += 1
            call(op)

    def dispatch():
        for i in range(len(listeners)):
            fire(i)

    if focus_cls and _initial_focus(case) is not None:
        real.focus = _initial_focus(case)  # before anybody listens: not part of the history

    def defer(clause, message):
        # the history goes on (the callback clauses are still checked); the first such finding is raised at the end
        if prof["deferred"] is None:
            prof["deferred"] = (clause, f"{message} {_REENTRANT_MARK}")

    def call(op):
        """one call, top-level or made by a listener; returns nothing, adds its totals to the enclosing frame"""
        if op[0] == "setfocus":
            if not focus_cls:
                return
            op = op[:2]
        if op[0] == "imul" and op[1] > 1 and len(model) > 30:
            return  # keep the lists small
        depth = len(stack)
        op = resolve_op(op, len(model), real.focus if focus_cls else None)
        fresh = {}
        base = next(counter) * 10

        def new_item(k):
            return fresh.setdefault(k, Item(base + k))

        prof["calls"] += 1
        prof["depth"] = max(prof["depth"], depth)
        old = list(model)
        fi_before = real.focus if focus_cls else None
        if depth == 0:
            fstate["exp"] = {fi_before}
            fstate["broken"] = False
            del fstate["fc"][:]
        exc_m = exc_r = exc_r_obj = None
        ret_m = ret_r = None
        if op[0] == "setfocus":
            in_range = isinstance(op[1], int) and 0 <= op[1] < len(model)
            exc_m = None if in_range or not model else IndexError
        else:
            try:
                ret_m = apply_op(model, op, new_item)
            except Exception as e:  # noqa: BLE001
                exc_m = type(e)
        changed = len(old) != len(model) or any(a is not b for a, b in zip(old, model))
        if exc_m is None and focus_cls and fstate["exp"] is not None:
            fstate["exp"] = set().union(*(_focus_after(old, model, fi, op) for fi in fstate["exp"]))
        if depth:
            key = "nested_failed" if exc_m is not None else "nested_changed" if changed else "nested_nochange"
            prof[key] += 1
        counts = [ls["count"] for ls in listeners]
        frame = {"changed": 0, "ok": 0, "calls": 0}
        stack.append(frame)
        try:
            ret_r = apply_op(real, op, new_item)
        except Violation:
            raise
        except Exception as e:  # noqa: BLE001  (_EndHistory is not an Exception)
            exc_r, exc_r_obj = type(e), e
        finally:
            stack.pop()
        what = f"{op} on {_Short(old)}" + (f" (made by a listener, nesting depth {depth})" if depth else "")
        deferred_error = False
        if exc_m is not exc_r:
            if exc_r is not None and exc_m is None:
                msg = f"{what}: list accepts, monitored list raised {exc_r_obj!r}"
                if focus_cls and (frame["calls"] or depth):
                    # a focus list, and either listeners edited it during this call or this call is such an edit
                    defer("same-errors", msg)
                    deferred_error = True
                    fstate["exp"] = None
                    fstate["broken"] = True
                else:
                    raise Violation("same-errors", msg) from exc_r_obj
            else:
                raise Violation("same-errors", f"{what}: list raised {exc_m}, monitored list raised {exc_r}")
        cur = list.__getitem__(real, slice(None))
        if deferred_error and (len(cur) != len(model) or any(a is not b for a, b in zip(cur, model))):
            raise _EndHistory  # the call raised before it did its work: list and model part here
        if len(cur) != len(model) or any(a is not b for a, b in zip(cur, model)):
            raise Violation(
                "same-contents",
                f"{what}, {frame['calls']} call(s) made by listeners meanwhile: list gives {_Short(model)}, "
                f"monitored list holds {_Short(cur)}",
            )
        if ret_m is not ret_r and not deferred_error:
            raise Violation("same-result", f"{what}: list returned {ret_m}, monitored list {ret_r}")
        # the callback: once per successful call that changes the contents - this call and those nested in it
        lo = frame["changed"] + (1 if exc_m is None and changed else 0)
        hi = frame["ok"] + (1 if exc_m is None else 0)
        for i, ls in enumerate(listeners):
            got = ls["count"] - counts[i]
            if exc_m is not None and got:
                raise Violation("modified-on-failure", f"{what} failed with {exc_m.__name__} but listener {i} was notified")
            if got > hi:
                raise Violation(
                    "modified-once",
                    f"{what}: {hi} successful call(s) (this one and those made by listeners meanwhile), listener {i} "
                    f"was notified {got} times",
                )
            if got < lo:
                raise Violation(
                    "modified-fires",
                    f"{what}: {lo} successful call(s) changed the contents (this one and those made by listeners "
                    f"meanwhile), listener {i} was notified {got} time(s)",
                )
            # ... and after the change: what the listener saw last is what the list holds when the call returns
            # (when nothing changed during a call made by a listener nothing can be said: the notifications of the
            # enclosing call are still under way)
            seen = ls["mirror"]
            if lo and (len(seen) != len(model) or any(a is not b for a, b in zip(seen, model))):
                raise Violation(
                    "modified-fires-after-change",
                    f"{what}: the call returned with {_Short(model)} but listener {i} was last notified when the list "
                    f"held {_Short(seen)}",
                )
        if stack:
            outer = stack[-1]
            outer["calls"] += 1 + frame["calls"]
            outer["changed"] += lo
            outer["ok"] += hi
        if not focus_cls or depth:
            return  # the focus clauses speak of the state between calls: checked when the top-level call returned
        f = real.focus
        bad = None
        if not model:
            if f is not None:
                bad = ("focus-none-iff-empty", f"{what}: empty list reports focus {f}")
        elif not isinstance(f, int) or not 0 <= f < len(model):
            bad = ("focus-in-range", f"{what} focus {fi_before}: focus now {f!r}, len {len(model)}")
        if bad and not fstate["broken"]:
            raise Violation(*bad)
        if bad:
            # an accepted call raised after listeners edited the list (recorded above) and left this behind: the
            # history ends here
            defer(*bad)
            prof["stop"] = True
            return
        if fstate["exp"] is None:
            return
        if exc_m is not None:
            if f != fi_before:
                raise Violation("unchanged-on-failure", f"{what} failed but focus moved {fi_before} -> {f}")
            return
        if f not in fstate["exp"]:
            msg = (
                f"{what} with focus {fi_before}, {frame['calls']} call(s) made by listeners meanwhile: expected focus "
                f"{sorted(fstate['exp'], key=repr)}, got {f}; now {_Short(model)}"
            )
            if frame["calls"]:
                defer("focus-follows-item", msg)
            else:
                raise Violation("focus-follows-item", msg)
        elif cls == "MFL" and not frame["calls"] and fi_before is not None and f is not None:
            fc = fstate["fc"]
            if (fi_before != f) != bool(fc) or (fc and fc[-1] != f):
                raise Violation("focus-changed-callback", f"{what}: focus {fi_before} -> {f} but focus_changed fired {fc}")

    if cls in ("ML", "MFL"):
        real.set_modified_callback(dispatch)
    elif cls == "REF":
        real.cb = dispatch
    else:
        for i in range(len(listeners)):
            urwid.connect_signal(real, "modified", lambda i=i: fire(i))
    if cls == "MFL":
        real.set_focus_changed_callback(lambda f: fstate["fc"].append(f))
    for op in ops:
        try:
            call(op)
        except _EndHistory:
            break
        if prof.get("stop"):
            break
        if cls == "SLW":
            f = real.focus
            if model and not (isinstance(f, int) and 0 <= f < len(model)):
                raise Violation("focus-in-range", f"SimpleListWalker focus {f!r} with {len(model)} items after {op}")
    return prof


def check_reentrant(case):
    """case: {"cls": ML|MFL|SLW|SFLW, "n", "focus", "handlers": [[op, ...], ...], "ops": [...]}"""
    case = json.loads(json.dumps(case))
    prof = _run_reentrant(case)
    if prof["deferred"] is not None:
        raise Violation(*prof["deferred"])


_profile_cache = [None, None]


def _reentrant_profile(case):
    """what takes place in the history, from the reference list (no urwid involved)"""
    key = json.dumps(case)
    if _profile_cache[0] != key:
        try:
            prof = _run_reentrant(json.loads(key), cls="REF")
        except Violation as v:  # must not pass for a finding (nor end a campaign silently): the harness is wrong
            raise RuntimeError(f"the oracle rejects the reference list: {v.clause}: {v.message}") from None
        _profile_cache[:] = [key, prof]
    return _profile_cache[1]


SUBS = {"single": check_single, "seq": check_seq, "legacy": check_legacy, "reentrant": check_reentrant}


# ---------------------------------------------------------------------------------------------
# enumeration and strategies

IDX = [None, *range(-7, 8)]
STEPS = [None, 1, 2, 3, -1, -2]


def single_ops():
    for i in range(-7, 8):
        yield ["get", i]
        yield ["set", i]
        yield ["del", i]
        yield ["insert", i]
        yield ["pop", i]
        yield ["setfocus", i]
    yield ["pop", None]
    for i in [None, 0, 1, 2, 3, 4, 5]:
        yield ["remove", i]
    for k in range(0, 4):
        yield ["extend", k]
        yield ["iadd", k]
    for k in range(-1, 4):
        yield ["imul", k]
    yield ["append"]
    yield ["reverse"]
    for rev in (None, 0, 1):  # None: reverse= not passed
        for keymod in (None, 1, 2, 3):  # None: key= not passed; else key = value % keymod (ties)
            if rev is None and keymod is None:
                continue  # same call as ["sort", 0, None]
            yield ["sort", rev, keymod]
    yield ["clear"]
    for a in IDX:
        for b in IDX:
            for c in STEPS:
                yield ["delslice", a, b, c]
                for k in range(0, 4):
                    yield ["setslice", a, b, c, k]


def single_cases(max_n):
    ops = list(single_ops())
    for n in range(0, max_n + 1):
        for fi in (range(n) if n else [None]):
            for op in ops:
                yield {"n": n, "focus": fi, "op": op}


def big_single_cases(sizes):
    """Long lists (far beyond the exhaustive bound): every op kind with every argument taken from the
    landmark positions of the list - both ends, one past the ends, around the focus - in the
    non-negative and the negative spelling, for the focus at both ends, next to them and in the middle."""
    for n in sizes:
        for fi in sorted({0, 1, n // 2, n - 2, n - 1}):
            pos = sorted(x for x in {0, 1, fi - 1, fi, fi + 1, n - 2, n - 1, n, n + 3} if x >= 0)
            neg = sorted({-1, -2, fi - n, fi - n - 1, -n, -n - 1, -n - 3})
            marks = pos + neg
            ops = []
            for i in marks:
                ops += [["get", i], ["set", i], ["del", i], ["insert", i], ["pop", i], ["setfocus", i]]
            ops.append(["pop", None])
            ops += [["remove", i] for i in [None, *(x for x in pos if x < n)]]
            for k in range(0, 4):
                ops += [["extend", k], ["iadd", k]]
            ops += [["imul", k] for k in range(-1, 4)]
            ops += [["append"], ["reverse"], ["clear"]]
            ops += [["sort", rev, keymod] for rev in (None, 0, 1) for keymod in (None, 1, 2, 3, n // 2)
                    if not (rev is None and keymod is None)]
            for a in [None, *marks]:
                for b in [None, *marks]:
                    for c in STEPS:
                        ops.append(["delslice", a, b, c])
                        ops += [["setslice", a, b, c, k] for k in range(0, 4)]
            for op in ops:
                yield {"n": n, "focus": fi, "op": op}


_rel = st.tuples(st.sampled_from(["f", "f", "nf", "m", "e"]), st.integers(-3, 3)).map(list)


def _op_strategy(index):
    """op lists; `index` is the strategy for index arguments"""
    idx = st.one_of(st.none(), index)
    step = st.sampled_from([None, 1, 1, 2, 3, -1, -2, -3])
    return st.one_of(
        st.tuples(st.just("get"), index),
        st.tuples(st.just("set"), index),
        st.tuples(st.just("del"), index),
        st.tuples(st.just("insert"), index),
        st.tuples(st.just("pop"), idx),
        # third element: spelling on a container (0 contents.focus = i, 1 focus_position = i, 2 set_focus(i))
        st.tuples(st.just("setfocus"), st.one_of(st.integers(-2, 9), index), st.sampled_from([0, 0, 1, 2])),
        st.tuples(st.just("remove"), st.one_of(st.none(), st.integers(0, 9), index)),
        st.tuples(st.just("extend"), st.integers(0, 3)),
        st.tuples(st.just("iadd"), st.integers(0, 3)),
        st.tuples(st.just("imul"), st.integers(-1, 3)),
        st.tuples(st.just("append")),
        st.tuples(st.just("reverse")),
        # sort(reverse=, key=): reverse None = not passed; keymod None = no key, else key = value % keymod (ties)
        st.tuples(st.just("sort"), st.sampled_from([None, 0, 1, 1]), st.sampled_from([None, None, 1, 2, 3, 5])),
        st.tuples(st.just("clear")),
        st.tuples(st.just("delslice"), idx, idx, step),
        st.tuples(st.just("setslice"), idx, idx, step, st.integers(0, 4)),
    ).map(list)


_CLASSES = ["ML", "MFL", "MFL", "SLW", "SFLW", "SFLW", "PILE", "COLS", "GRID"]

# the initial focus as a container's constructor takes it (ignored by the other classes): nothing, any index
# (plain, or ["e", d] = number of children + d), ["w", i] the i-th child widget, ["w", None] a foreign widget
_ctor_focus = st.one_of(
    st.none(),
    st.integers(-2, 10),
    st.tuples(st.just("e"), st.integers(-3, 3)).map(list),
    st.tuples(st.just("w"), st.one_of(st.none(), st.integers(0, 7))).map(list),
)

_seq_small = st.fixed_dictionaries(
    {
        "cls": st.sampled_from(_CLASSES),
        "n": st.integers(0, 7),
        "focus": st.one_of(st.none(), st.integers(0, 6)),
        "ctor_focus": _ctor_focus,
        "ops": st.lists(
            _op_strategy(st.one_of(st.integers(-9, 9), st.integers(-9, 9), st.integers(-9, 9), _rel)),
            min_size=1,
            max_size=30,
        ),
    }
)
# long lists: indices mostly relative to the current state (focus, middle, end), few plain ones (the ends)
_seq_long = st.fixed_dictionaries(
    {
        "cls": st.sampled_from(_CLASSES),
        "n": st.sampled_from([70, 300, 520, 1100]),
        "focus": st.one_of(st.none(), st.sampled_from([0, 1, -1, -2, ["m", 0], ["m", 1]])),
        "ctor_focus": _ctor_focus,
        "ops": st.lists(
            _op_strategy(st.one_of(_rel, _rel, _rel, st.integers(-9, 9))),
            min_size=1,
            max_size=12,
        ),
    }
)
# one case in eight works on a long list
_seq_case = st.integers(0, 7).flatmap(lambda k: _seq_long if k == 7 else _seq_small)


# --- the containers' other monitored lists

IDX_L = [None, *range(-5, 6)]


def legacy_single_ops():
    """every single list operation with every argument, on the index range that suits lists of up to 4 items"""
    for i in range(-5, 6):
        yield ["get", i]
        yield ["set", i]
        yield ["del", i]
        yield ["insert", i]
        yield ["pop", i]
    yield ["pop", None]
    for i in [None, 0, 1, 2, 3]:
        yield ["remove", i]
    for k in range(0, 4):
        yield ["extend", k]
        yield ["iadd", k]
    for k in range(-1, 4):
        yield ["imul", k]
    yield ["append"]
    yield ["reverse"]
    for rev in (None, 0, 1):
        for keymod in (None, 1, 2, 3):
            if rev is None and keymod is None:
                continue
            yield ["sort", rev, keymod]
    yield ["clear"]
    for a in IDX_L:
        for b in IDX_L:
            for c in STEPS:
                yield ["delslice", a, b, c]
                for k in range(0, 4):
                    yield ["setslice", a, b, c, k]


def legacy_single_cases(max_n):
    """every list a container hands out x every number of children 0..max_n x every focus x every single op
    (the box-column list: for no, every, the odd and the even columns flagged)"""
    ops = list(legacy_single_ops())
    for cls, attr in LEGACY_LISTS:
        for n in range(0, max_n + 1):
            full = (1 << n) - 1
            masks = sorted({0, full, 0b0101 & full, 0b1010 & full}) if attr == "box_columns" else [0b0101 & full]
            for fi in (range(n) if n else [None]):
                for box in masks:
                    for op in ops:
                        yield {"cls": cls, "attr": attr, "n": n, "focus": fi, "box": box, "refetch": False, "ops": [op]}


def _legacy_single_nontrivial(case):
    return case["n"] > 0 and case["ops"][0][0] != "get"


def _legacy_single_classes(case):
    out = [f"legacy:{case['cls']}.{case['attr']}", f"legacy-single:{case['ops'][0][0]}"]
    if case["n"]:
        probe = list(range(case["n"]))  # what a list of that many items becomes
        try:
            apply_op(probe, case["ops"][0], lambda k: 0)
        except Exception:  # noqa: BLE001
            out.append("legacy-single:list-raises")
        else:
            if not probe:
                out.append("legacy-single:list-becomes-empty")
    else:
        out.append("legacy-single:empty-container")
    return out


_legacy_seq = st.fixed_dictionaries(
    {
        "la": st.sampled_from(LEGACY_LISTS),
        "n": st.sampled_from([0, 1, 1, 2, 2, 3, 3, 4, 5, 6, 7]),
        "focus": st.one_of(st.none(), st.integers(0, 6)),
        "box": st.integers(0, 127),
        "refetch": st.booleans(),
        "ops": st.lists(
            _op_strategy(st.one_of(st.integers(-9, 9), st.integers(-9, 9), st.integers(-9, 9), _rel)),
            min_size=1,
            max_size=20,
        ),
    }
).map(lambda d: {"cls": d["la"][0], "attr": d["la"][1], **{k: v for k, v in d.items() if k != "la"}})


def _legacy_seq_classes(case):
    out = [f"legacy:{case['cls']}.{case['attr']}", "legacy-seq:" + ("list-read-before-every-call" if case["refetch"] else "list-read-once")]
    if any(o[0] == "setfocus" for o in case["ops"]):
        out.append("legacy-seq:focus-moved-between-calls")
    return out


# --- histories with listeners that edit the list

_REENTRANT_CLASSES = ["ML", "MFL", "SLW", "SFLW"]
# one call of every kind (on a list of three items): changing the contents, leaving them as they are, failing
_REENTRANT_OPS = [
    ["set", 1], ["del", 0], ["del", -1], ["insert", 0], ["insert", 5], ["append"], ["extend", 2], ["iadd", 1],
    ["imul", 2], ["imul", 0], ["pop", None], ["pop", 0], ["remove", 1], ["reverse"], ["sort", 1, None], ["clear"],
    ["delslice", 0, 2, None], ["delslice", None, None, 2], ["setslice", 1, 2, None, 2], ["setslice", None, None, -1, 3],
    ["setslice", None, None, None, 0],
    ["extend", 0], ["delslice", 2, 1, None], ["sort", 0, None],
    ["pop", 7], ["del", 9], ["set", -4], ["remove", None], ["setslice", None, None, 2, 1],
]
# who edits: the only listener, the first or the last of two, the middle one of three
_REENTRANT_PLACES = [(0, 1), (0, 2), (1, 2), (1, 3)]


def reentrant_pair_cases():
    """every kind of call x every kind of edit made by a listener while it is notified of that call x the
    editing listener's place among the listeners x the four list classes that take listeners"""
    for cls in _REENTRANT_CLASSES:
        for outer in _REENTRANT_OPS:
            for nested in _REENTRANT_OPS:
                for place, count in _REENTRANT_PLACES:
                    handlers = [[] for _ in range(count)]
                    handlers[place] = [nested]
                    yield {"cls": cls, "n": 3, "focus": 1, "handlers": handlers, "ops": [outer]}


# index arguments that do not depend on the focus (the profile of a case is taken from a list without one)
_rel_nofocus = st.tuples(st.sampled_from(["m", "e"]), st.integers(-3, 3)).map(list)
_reentrant_ops = _op_strategy(st.one_of(st.integers(-8, 8), st.integers(-8, 8), _rel_nofocus))
_reentrant_case = st.fixed_dictionaries(
    {
        "cls": st.sampled_from(_REENTRANT_CLASSES),
        "n": st.integers(0, 6),
        "focus": st.one_of(st.none(), st.integers(0, 5)),
        # the listeners in the order they are connected: passive ones and (at least one) with a script
        "before": st.lists(st.lists(_reentrant_ops, max_size=3), max_size=2),
        "editor": st.lists(_reentrant_ops, min_size=1, max_size=5),
        "after": st.lists(st.lists(_reentrant_ops, max_size=3), max_size=2),
        "ops": st.lists(_reentrant_ops, min_size=1, max_size=10),
    }
).map(
    lambda d: {"cls": d["cls"], "n": d["n"], "focus": d["focus"], "handlers": [*d["before"], d["editor"], *d["after"]],
               "ops": d["ops"]}
)


def _reentrant_nontrivial(case):
    """an edit made by a listener went through and changed the contents"""
    return _reentrant_profile(case)["nested_changed"] > 0


def _reentrant_classes(case):
    prof = _reentrant_profile(case)
    out = [f"reentrant:{case['cls']}", f"reentrant:{len(case['handlers'])}-listeners"]
    for key, label in (("nested_changed", "listener-edit-changes-contents"), ("nested_failed", "listener-edit-fails"),
                       ("nested_nochange", "listener-edit-leaves-contents")):
        if prof[key]:
            out.append("reentrant:" + label)
    if prof["depth"] >= 2:
        out.append("reentrant:edit-inside-the-notification-of-an-edit")
    if sum(1 for s in case["handlers"] if s) > 1:
        out.append("reentrant:several-editing-listeners")
    if any(not s for s in case["handlers"]):
        out.append("reentrant:passive-listener-beside-the-editor")
    return out


def _initial_focus(case):
    """the "focus" field of a seq case as an index (None: leave the constructor's choice)"""
    n, f = case["n"], case.get("focus")
    if f is None or not n:
        return None
    return _resolve_index(f, n, 0) % n


def _ctor_focus_arg(case):
    cf = case.get("ctor_focus")
    if isinstance(cf, list) and cf[0] == "e":
        return case["n"] + cf[1]
    return cf


def _seq_nontrivial(case):
    ops = case["ops"]
    return len(ops) >= 3 and any(o[0] in ("setslice", "delslice") for o in ops)


def _seq_classes(case):
    out = [f"seq:{case['cls']}"]
    if any(o[0] in ("setslice", "delslice") and o[3] not in (None, 1) for o in case["ops"]):
        out.append("seq:extended-slice")
    if any(o[0] == "imul" for o in case["ops"]):
        out.append("seq:imul")
    if case["n"] > 7:
        out.append("seq:long-list")
    if any(o[0] == "sort" and len(o) > 2 and o[2] is not None for o in case["ops"]):
        out.append("seq:sort-key-ties")
    if any(isinstance(x, list) for o in case["ops"] for x in o[1:3]):
        out.append("seq:state-relative-index")
    cf = _ctor_focus_arg(case) if case["cls"] in CONTAINERS else None
    if cf is not None:
        out.append("seq:ctor-focus-" + ("widget" if isinstance(cf, list) else "index" if 0 <= cf < case["n"] else "index-out-of-range"))
    return out


def _single_classes(case):
    op = case["op"]
    out = [f"single:{op[0]}"]
    if op[0] in ("setslice", "delslice"):
        start, stop, step = slice(op[1], op[2], op[3]).indices(case["n"])
        if step < 0:
            out.append("single:negative-step")
        elif step > 1:
            out.append("single:step>1")
        elif stop < start:
            out.append("single:reversed-empty")
        if case["focus"] is not None and case["focus"] in range(start, stop, step):
            out.append("single:focus-in-slice")
    return out


def _big_single_classes(case):
    return [c.replace("single:", "single-long:") for c in _single_classes(case)]


def shard(ctx):
    max_n = ctx.scale(5, 6)
    ctx.sweep("single", single_cases(max_n), nontrivial=is_nontrivial_single, classify=_single_classes,
              exhaustive_name=f"single ops, size<= {max_n}")
    if ctx.failure is None:
        max_l = ctx.scale(3, 4)
        ctx.sweep("legacy", legacy_single_cases(max_l), nontrivial=_legacy_single_nontrivial,
                  classify=_legacy_single_classes, exhaustive_name=f"single ops on the containers' other lists, children<= {max_l}")
    if ctx.failure is None:
        ctx.sweep("reentrant", reentrant_pair_cases(), nontrivial=_reentrant_nontrivial, classify=_reentrant_classes,
                  exhaustive_name="every kind of call x every kind of edit made by a listener during its notification")
    if ctx.failure is None:
        sizes = ctx.scale((300, 1025), (300, 1025, 4099))
        ctx.sweep("single", big_single_cases(sizes), nontrivial=is_nontrivial_single, classify=_big_single_classes,
                  exhaustive_name=f"single ops at landmark positions, sizes {sizes}")
    if ctx.failure is None:
        ctx.given("seq", _seq_case, ctx.scale(1500, 20000), nontrivial=_seq_nontrivial, classify=_seq_classes)
    if ctx.failure is None:
        ctx.given("legacy", _legacy_seq, ctx.scale(400, 5000), nontrivial=_seq_nontrivial, classify=_legacy_seq_classes)
    if ctx.failure is None:
        ctx.given("reentrant", _reentrant_case, ctx.scale(500, 6000), nontrivial=_reentrant_nontrivial,
                  classify=_reentrant_classes)


# ---------------------------------------------------------------------------------------------
# known findings (active only if listed in known_findings.json with status "known")



def _known_legacy_empty_container(sub, case, v):
    """a container without children: the setter behind widget_list / item_types / column_types / cells reads
    focus_position (documented to raise IndexError when empty) before it stores the new contents"""
    return (
        sub == "legacy"
        and case["attr"] != "box_columns"
        and v.clause == "same-errors"
        and _EMPTY_MARK in v.message
        and "No focus_position" in v.message
        and "list accepts" in v.message
    )


def _known_focus_stored_after_callback(sub, case, v):
    """MonitoredFocusList (and SimpleFocusListWalker): every mutator computes the new focus, lets the inherited
    mutator change the list AND call the modified callback, and stores the focus only then.  A listener that edits
    the list (or moves the focus) from the callback works on the old focus index, and the enclosing call then
    stores its stale value on top: the focus designates another item, or the range check of the focus setter
    raises IndexError out of a call a list accepts (leaving the focus index of the inner edit, possibly out of
    range).  Only findings recorded after an edit made from inside the callback, on a focus list, of these two
    shapes."""
    return (
        sub == "reentrant"
        and case["cls"] in ("MFL", "SFLW")
        and _REENTRANT_MARK in v.message
        and (
            v.clause == "focus-follows-item"
            or (v.clause == "same-errors" and "list accepts" in v.message and "focus index is out of range" in v.message)
            # sort() reads its focus item at the stale index when called by a listener (IndexError), and looks it
            # up after the callback ran (ValueError when a listener removed it)
            or (v.clause == "same-errors" and "list accepts" in v.message and "['sort'," in v.message
                and ("is not in list" in v.message or "list index out of range" in v.message))
        )
    )


KNOWN = {
    "C16-legacy-list-empty-container": _known_legacy_empty_container,
    "C16-focus-stored-after-modified-callback": _known_focus_stored_after_callback,
}
