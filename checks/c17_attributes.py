"""C17 -- display attributes travel from markup to the terminal unchanged.

Code under test: ``urwid.util.decompose_tagmarkup`` / ``_tagmarkup_recurse``, ``urwid.canvas.apply_text_layout``
(``arange`` / ``attrrange``), ``TextCanvas.content(attr=...)``, ``CompositeCanvas.fill_attr`` /
``fill_attr_apply``, ``AttrMap.render`` / ``AttrWrap``, ``BaseScreen.register_palette`` /
``register_palette_entry``, ``raw_display.Screen._on_update_palette_entry`` / ``set_terminal_properties`` /
``_attrspec_to_escape`` / ``draw_screen``.

Sub-checks
----------
``markup`` / ``markup_short``  (clause a)
    A JSON markup tree (str | ["L", item, ...] | ["T", attr, item]) is turned into urwid markup (all text str, or all
    text bytes in the screen encoding) and rendered by ``Text(markup, align, wrap).render((width,))``.
    Oracle: a recursive walk of the JSON tree gives every source unit (str character / byte) the attribute of the
    innermost enclosing tag.  The *documented* layout structure returned by ``Text.get_line_translation(width)``
    (verified by C03; ``trim_line``/``apply_text_layout`` are NOT used) says which source offsets sit in which
    columns of which row: text segments, alignment shift, inserted text (ellipsis mark) with "the attribute at that
    text offset".  The canvas rows are decoded with the independent width oracle (``vlib.widths``) into
    per-column cells and per-boundary zero-width characters; then, column by column:
      * a column showing (half of) source character k has k's attribute                       -> ``char-attr``
      * zero-width characters carry their own source attribute                                -> ``zero-width-attr``
      * alignment shift and fill columns carry ``None``                                       -> ``padding-attr``
      * every column of the ellipsis mark has the attribute at the mark's offset              -> ``ellipsis-attr``
      * no attribute run boundary falls inside a (multi-byte) character                       -> ``attr-splits-character``
    Weaker readings: nothing is asserted about spaces that replace a cut double-width character (layout
    ``(n, offs)`` segments, window edges of clipped lines) nor about zero-width characters at the edge of a clip
    window; where the displayed geometry differs from the layout (C03's subject) the column is skipped and counted.
``set_text_short`` and the "then" steps of ``markup``  (clause a for the markup a widget is *given later*)
    The same Text widget is given further markups with ``set_text()`` and looked at after each one exactly as after
    construction (same oracle, expectation from the JSON tree of that step).  A step is either a newly built markup
    object or -- what an application that keeps its status-line / menu markup around does -- *the same object that
    was handed over before, edited in place* (``_morph``: the list stays the same list, items are replaced,
    deleted, inserted; lists nested at the same position, directly or inside a tag tuple, are edited in place in
    turn) and passed again.  Nothing is asserted between the caller's edit and the set_text() call (the docs are
    silent on whether the widget sees the edit before it is told).
``clip`` / ``clip_short``  (clause a, "clipping ... never shift[s] an attribute onto a neighbouring character")
    The same markup cases, but the rendered Text is looked at through a *view that clips it*: (1) ``ops``: a
    history of ``pad_trim_left_right`` / ``pad_trim_top_bottom`` (negative = trim, positive = pad, both documented) /
    ``fill_attr_apply`` / ``fill_attr`` calls on ``CompositeCanvas(text canvas)``, compared after every step;
    (2) ``content``: ``TextCanvas.content(trim_left, trim_top, cols, rows, attr)`` (what a composite canvas asks
    of a partially obscured canvas); (3) ``overlay``: an ``Overlay`` whose top widget (``AttrMap(SolidFill, 'TOP')``)
    covers a rectangle of ``Filler(Text, 'top')`` (optionally inside an ``AttrMap``); (4) ``padclip``:
    ``Padding(Text, align='left'|'right', width='clip').render((cols,))`` (documented clipping mode: clipped, or
    padded, on the side away from the alignment).  Oracle: a *model* of expected cells, built from the source walk
    and the documented layout structure exactly as in ``markup`` and then sliced / padded / mapped with list
    operations (``_m_lr``, ``_m_tb``, ``_m_map``) -- ``trim_text_attr_cs``, ``calc_trim_text``, ``shards_trim_*``
    are not used.  Per column of the view:
      * a character wholly inside the view carries its innermost tag (through the maps)       -> ``char-attr``
      * a one-column blank standing in for a double-width character that a view edge cuts carries that
        character's attribute (through the maps), not a neighbour's                            -> ``clip-standin-attr``
      * columns added by padding (and the Text's own alignment / fill columns) carry None, or what the maps
        applied *afterwards* make of None                                                      -> ``padding-attr``
      * columns of the Overlay's top widget carry the top widget's attribute                   -> ``overlay-top-attr``
      * ellipsis mark columns and zero-width characters inside the view as in ``markup``.
    Weaker readings: the stand-in cell may also carry None (read as a fill cell) or the attribute of a zero-width
    character that follows the cut character (it shares the cell); cells the *layout* already cut (wrap='clip'
    ``(n, offs)`` segments) and zero-width characters sitting on a view edge are not asserted.
``maps``  (clause b)
    Trees of Text / Pile / Columns / AttrMap / AttrWrap; every AttrMap/AttrWrap sits between two recording
    ``WidgetWrap`` probes which snapshot the focus flag and the cell grid (``vlib.cells``) of the canvas passing
    through.  Law per map node: ``out == M(in)`` cell by cell, M = focus map when rendered with focus=True and a
    focus map was given, else the attribute map; attributes not listed stay, text and charset stay.  Because the
    "in" grid of an outer map *is* the "out" grid of the inner one, the laws chain to ``m_n(...m_1(a))``; for pure
    chains around one Text this end-to-end form is also asserted against a fresh un-mapped render.  Then a sequence
    of canvas-level ``fill_attr(a)`` / ``fill_attr_apply(mapping)`` on ``CompositeCanvas(root canvas)`` is checked
    after every step against the mapped grid.
``sgr`` / ``sgr_sweep``  (clause c)
    ``raw_display.Screen`` (input: read end of a pipe, output: capture object, TERM=xterm) with a generated palette
    (3/4/6-tuples, aliases, re-registrations, entries registered after start), ``set_terminal_properties`` before
    and/or after registration and between draws; draws a TextCanvas whose cells name palette entries, undefined
    names, None or AttrSpec objects.  The escape stream is decoded by the reference terminal ``vlib.vtmodel.VT``;
    every cell's (fg, bg, flags) must be what the palette strings say for the active depth.  The palette strings
    are parsed here (``_parse_spec``); AttrSpec is never asked for an expectation.  Readings:
      * bright-is-bold normalisation: a bright basic foreground (8..15) with bright_is_bold is expected as colour-8
        plus bold; otherwise as 8..15 (SGR 90-97); bright backgrounds as 8..15 (SGR 100-107, TERM != linux);
      * 'hN' at 2**24 colours: index N or xterm's default RGB for N accepted; '#rgb' at 88/256: any cube entry
        whose components are nearest (ties either way) to 0xNN; at 2**24 additionally those entries' RGB and the
        literal 0xNN triple; '#rrggbb' exact at 2**24 and unchecked below; 'gN'/'g#XX' colours unchecked (C18);
      * depth 88 and an 'hN' with N > 15 in the high-colour strings: urwid falls back to the 16-colour strings
        ("hX where X > 15 are different in 88/256 color"); for 16 <= N <= 87 both the fallback and colour N are
        accepted, for N > 87 only the fallback;
      * blank cells: only the background (and underline/reverse) are compared (a terminal shows nothing else);
      * the empty string is a spelling of 'default' in every slot ("If the color is not given then 'default' will
        be assumed", "An empty string will be treated the same as 'default'"); only ``None`` in the mono / high
        slots means "no settings" / "use the basic value".  A late ``register_palette`` may be made with the *same
        list object* as the first one, edited in place ("late_same");
      * entry *names* are attribute names like any other ("name: str | None"): ordinary strings, ``None`` (the entry
        every Screen starts with as default/default; registering it anew is how unmarked text, padding and fill get
        colours), ``''``, ``0`` and a tuple.  A cell naming a defined entry -- whatever the name's type or truth value
        -- must show that entry; the same names left undefined fall back to the default.
"""
from __future__ import annotations

import itertools
import os
import warnings

from hypothesis import strategies as st

import urwid
from urwid import text_layout
from urwid.display.common import AttrSpec
from vlib import cells as C
from vlib import gen_text as GT
from vlib import widths as W
from vlib.runner import Discard, Violation
from vlib.vtmodel import VT

PROPERTY = "C17"
LEVEL = "exploration"
RULE = (
    "markup_short: exhaustive strings of length <= 4 over 5 letters (quick) / <= 5 over 6 letters (thorough) per "
    "encoding (a, space, newline, double-width, combining or Latin-1 ...), every character its own tag (attributes "
    "A..E cycling; second form with every other character untagged; third form with neighbours sharing a tag), "
    "x width 1..4 (1..6) x 4 wrap modes x 3 alignments x str/bytes x 3 encodings. clip_short: exhaustive strings "
    "of length <= 3 over the same 5 letters (6, thorough), per-character tags (and every other character "
    "untagged), str/bytes, wrap any/clip x align left/right (thorough: all) x width 1..4 (1..5) x EVERY column "
    "window [left, left+cols) of the rendered Text through TextCanvas.content and as the rectangle covered by an "
    "Overlay's top widget (row 0, row 1), every pair (left, right) in -(width-1)..1 that leaves a column for "
    "CompositeCanvas.pad_trim_left_right, and Padding(width='clip', align left/right) at every width 1..natural+1. "
    "set_text_short: exhaustive strings of length <= 3 (thorough 4) over the same letters, per-character tags (and "
    "every other character untagged), Text built from the list, then EVERY single in-place edit of that same list "
    "object (item i retagged / untagged / its text replaced / deleted, an item inserted at every position, the tags "
    "moved on by one item, the items rotated) and set_text(the same object); the edited list at top level, inside "
    "a tag tuple and inside an outer list; width natural+2 or 2, wrap / align / str-bytes rotating. "
    "markup / clip / maps / sgr: Hypothesis draws a byte tape that a deterministic "
    "builder turns into the JSON case. clip: a markup case (as below, width 1..24) seen through one of: 1-4 ops "
    "(pad_trim_left_right / pad_trim_top_bottom with each side trimmed by up to 9 or padded by up to 2, taken modulo "
    "what is left; fill_attr_apply with 0-4 pairs; fill_attr), a content() window with optional attr mapping, an "
    "Overlay rectangle with optional AttrMap around the bottom widget, or Padding clip at 1..12 columns. markup: nested markup (lists/tuples to depth 5, 1-5 top-level items, text "
    "pieces of 0-6 characters from vlib.gen_text alphabets incl. double-width, combining, DEC line drawing, empty "
    "strings and empty lists; attributes from a pool of str, int, tuple, None, AttrSpec) x width 1..24 x wrap x "
    "align x str/bytes x 3 encodings; half of the cases continue with 1-3 set_text() steps on the same widget, each "
    "markup an edit of the previous one (item inserted / deleted / swapped, tags moved on, tag changed / removed, "
    "recursively) or a new random markup, handed over as a new object or (2 of 3) as the previously given object "
    "edited in place. maps: trees (Text leaves; Pile/Columns to depth 2; chains of 0-4 "
    "AttrMap/AttrWrap with dict or single-attribute maps, {None: x} entries, missing keys, focus maps incl. {}), "
    "focus on/off, followed by 0-4 canvas-level fill_attr/fill_attr_apply steps. sgr_sweep: exhaustive 17x17 "
    "default/basic foreground x background pairs x depths 16,88,256,2**24 x bright_is_bold x 8 rotating setting "
    "subsets (all 64 subsets on 'default' and in the mono slot at depth 1), all h0..h255 as foreground and as "
    "background at depths 88 (N<88), 256, 2**24, all 4096 '#rgb' (every 5th in quick) at 88, 256 and 2**24, hN "
    "resolved via the palette and as AttrSpec cells; all 900 combinations of the spellings of a 6-field entry's slots "
    "(foreground '', 'default', colour, settings, both; background '', 'default', colour; mono None, '', setting; "
    "foreground_high None, '', 'default', colour, setting; background_high None, '', 'default', colour) at all 5 "
    "depths; every kind of entry name (None, '', 0, a tuple, a string) x 5 depths x entry form (3 / 4 / 6 fields, "
    "the name an alias of another entry, another name an alias of it) x registered before start / after start / "
    "before and redefined after, drawn on glyph and blank cells beside another entry, a None cell and an undefined "
    "name, plus an all-blank row in that name. sgr: palettes (0-5 entries of all tuple forms, names from 5 strings, "
    "None, '', 0 and a tuple, aliases, "
    "re-registration, settings before or after the colour, '' as well as 'default' in every slot, late registration "
    "with a new list or with the first list object edited in place) x pre/post set_terminal_properties "
    "x up to 2 further depth switches with a redraw each, 1-6 columns x 1-2 rows of cells naming entries, aliases, "
    "undefined names, None or AttrSpec objects, glyph or blank. Non-trivial: markup = a multi-byte character in a "
    "text that has >= 2 attribute runs and a line wider than the width; clip = a double-width character in a text "
    "with >= 2 attribute runs seen through a view that trims columns (counters clip:standin-cells / "
    "clip:whole-character-cells say how many cells were asserted); maps = >= 2 maps composed on one path "
    "(widget maps plus canvas-level steps, at least one widget map); sgr = a defined entry is displayed and the palette mixes >= 2 entry forms."
)
ASSUMPTIONS = [
    "trusted base: the wcwidth table / DBCS rule / one-byte-one-column (vlib.widths), Python codecs, list "
    "operations on cell grids (vlib.cells), the reference terminal vlib.vtmodel.VT (SGR 0-9, 30-49, 90-107, "
    "38/48;5;n, 38/48;2;r;g;b, BCE erase, insert mode)",
    "the layout structure of StandardTextLayout is the documented one and correct (C03); it is the only urwid "
    "output used to locate source characters on the canvas",
    "generated text is representable in the screen encoding; in wide mode encoded length == column width; DEC "
    "line-drawing characters only as str (they have no sound byte form outside utf-8); bytes markup is cut at "
    "character boundaries",
    "empty strings and empty lists are text markup (the grammar '[markup, ...] joined together' with zero items; "
    "/repo HEAD contains the fix that makes them contribute nothing)",
    "attribute names are str, int, tuple, None or AttrSpec; no two distinct generated names compare equal",
    "palette entry names are attribute names (register_palette_entry's hint is 'str | None'; the property quantifies "
    "over arbitrary hashable names): None, '', 0 and a tuple are registered like strings; AttrSpec objects and bools "
    "are never used as entry names",
    "set_text() histories: the caller may keep the markup list it handed over, edit it in place and pass the same "
    "object again (urwid's docs put no freshness requirement on the argument); the widget is only looked at after "
    "set_text() has been called with the edited object, never between the edit and the call",
    "palette strings: '' is accepted wherever 'default' is (AttrSpec docs: colour not given -> 'default'; 'An empty "
    "string will be treated the same as 'default''); a whole-string '' only, never an empty part next to a colour",
    "clip: pad_trim_left_right / pad_trim_top_bottom are only called with amounts that leave >= 1 column and >= 1 "
    "row; TextCanvas.content() only with a window inside the canvas; the Overlay's top widget is placed with "
    "('fixed left', n) / ('fixed top', n) and a given width / height that fit (no rounding involved); Padding clip "
    "only with align 'left' / 'right' and only when Text.pack(()) agrees with the width oracle on the natural width",
    "containers are only used with widths at which every column is >= 1 wide; a case whose rendering emits a urwid "
    "sizing warning is discarded",
    "TERM=xterm for the raw display (bright_is_bold False, bright backgrounds as SGR 100-107, back_color_erase)",
    "xterm's default 256-colour palette (cube 0,95,135,175,215,255; grays 8+10i) for 'hN' at 2**24 colours",
]

ENCODINGS = ("utf-8", "euc-jp", "iso8859-1")
WRAPS = ("any", "space", "clip", "ellipsis")
ALIGNS = ("left", "center", "right")
T24 = 2**24
DEPTHS = (1, 16, 88, 256, T24)

STATS: dict[str, int] = {}


def _stat(label, n=1):
    STATS[label] = STATS.get(label, 0) + n


# ---------------------------------------------------------------------------------------------
# encoding state

_current = [None]


def _set_encoding(enc: str) -> str:
    mode = W.mode_of(enc)
    if _current[0] != enc:
        W.use_encoding(enc)
        _current[0] = enc
    else:
        urwid.util.set_encoding(enc)
        urwid.CanvasCache.clear()
        for name in ("get_ellipsis_string", "_get_width"):
            f = getattr(text_layout, name, None)
            if f is not None and hasattr(f, "cache_clear"):
                f.cache_clear()
    return mode


# ---------------------------------------------------------------------------------------------
# JSON <-> attributes / markup

# attribute pool (JSON form): None, str, int, tuple, AttrSpec
ATTR_POOL = [None, "a1", "a2", "hl", 1, 2, ["t", "a", 1], ["spec", "light red,bold", "dark blue", 16],
             ["spec", "#fa0", "g20", 256]]
MAP_TARGETS = [None, "a1", "a2", "hl", "z", 7, ["t", "z", 2], ["spec", "yellow", "default", 16]]


def dec_attr(j):
    """JSON attribute -> display attribute"""
    if j is None or isinstance(j, str):
        return j
    if isinstance(j, bool):
        raise Discard()
    if isinstance(j, int):
        return j
    if isinstance(j, list) and j:
        if j[0] == "t":
            return tuple(dec_attr(x) for x in j[1:])
        if j[0] == "spec" and len(j) == 4:
            return AttrSpec(j[1], j[2], j[3])
    raise Discard()


def walk_markup(node, attr, out):
    """The reference walk: [(text piece, innermost attribute)] in order."""
    if isinstance(node, str):
        out.append((node, attr))
    elif isinstance(node, list) and node and node[0] == "L":
        for sub in node[1:]:
            walk_markup(sub, attr, out)
    elif isinstance(node, list) and len(node) == 3 and node[0] == "T":
        walk_markup(node[2], dec_attr(node[1]), out)
    else:
        raise Discard()
    return out


def build_markup(node, conv):
    if isinstance(node, str):
        return conv(node)
    if node[0] == "L":
        return [build_markup(sub, conv) for sub in node[1:]]
    return (dec_attr(node[1]), build_markup(node[2], conv))


def markup_depth(node):
    if isinstance(node, str):
        return 0
    if node[0] == "L":
        return 1 + max((markup_depth(s) for s in node[1:]), default=0)
    return 1 + markup_depth(node[2])


class Source:
    """source text of a markup case: units (str characters or bytes) with their expected attribute"""

    __slots__ = ("text", "uattr", "pieces", "multibyte", "nruns", "has_wide", "has_zero", "max_pw")

    def __init__(self, node, enc, is_bytes, mode):
        pieces = walk_markup(node, None, [])
        self.pieces = pieces
        full = "".join(p for p, _ in pieces)
        self.multibyte = False
        for ch in full:
            if ch in GT.DEC and enc != "utf-8":
                if is_bytes:
                    raise Discard()  # precondition: DEC characters only as str outside utf-8
                continue
            try:
                b = ch.encode(enc)
            except UnicodeEncodeError:
                raise Discard() from None
            if len(b) > 1:
                self.multibyte = True
            if mode == "wide" and ch != "\n" and len(b) != max(W.char_width(ch), 0):
                raise Discard()
            if mode == "narrow" and (len(b) != 1 or W.char_width(ch) != 1) and ch != "\n":
                raise Discard()
        uattr = []
        if is_bytes:
            chunks = []
            for p, a in pieces:
                b = p.encode(enc)
                chunks.append(b)
                uattr.extend([a] * len(b))
            # urwid: an empty markup is the empty str whatever the piece type
            self.text = b"".join(chunks) if pieces else ""
        else:
            for p, a in pieces:
                uattr.extend([a] * len(p))
            self.text = full
        self.uattr = uattr
        runs, last = 0, object()
        for a in uattr:
            if runs == 0 or a != last:
                runs += 1
                last = a
        self.nruns = runs
        wd = [W.char_width(ch) for ch in full]
        self.has_wide = 2 in wd
        self.has_zero = any(w == 0 and ch != "\n" for w, ch in zip(wd, full))
        pw, cur = 0, 0
        for w, ch in zip(wd, full):
            if ch == "\n":
                pw, cur = max(pw, cur), 0
            else:
                cur += w
        self.max_pw = max(pw, cur)


_src_memo: dict = {}


def source_of(case, mode=None, markup=None):
    if markup is None:
        markup = case["markup"]
    key = (case["enc"], bool(case["bytes"]), repr(markup))
    hit = _src_memo.get(key)
    if hit is None:
        if len(_src_memo) > 32:
            _src_memo.clear()
        hit = _src_memo[key] = Source(markup, case["enc"], bool(case["bytes"]), W.mode_of(case["enc"]))
    return hit


# ---------------------------------------------------------------------------------------------
# (a) markup -> cells


def decode_row(runs, mode, what, y):
    """content() row -> (cols, zw): cols[c] = (attr, half, width) for every screen column, zw[b] = [attr, ...] of
    the zero-width characters sitting at column boundary b (after column b-1)."""
    cols, zw = [], {}
    i, n = 0, len(runs)
    while i < n:
        attr, cs, text = runs[i]
        if not isinstance(text, bytes):
            raise Violation("grid", f"{what}: row {y} run text is {type(text).__name__}: {runs!r}")
        if cs in ("0", "U"):
            cols.extend([(attr, 0, 1)] * len(text))
            i += 1
            continue
        # maximal stretch of runs in the normal character set: characters are found on the joined bytes so that a
        # run boundary inside a character is seen as such
        j = i
        ends, parts, total = [], [], 0
        while j < n and runs[j][1] not in ("0", "U"):
            if not isinstance(runs[j][2], bytes):
                raise Violation("grid", f"{what}: row {y} run text is {type(runs[j][2]).__name__}: {runs!r}")
            parts.append(runs[j][2])
            total += len(runs[j][2])
            ends.append(total)
            j += 1
        joined = b"".join(parts)
        k = 0
        for s, e, w in W.chars(joined, mode):
            while ends[k] <= s:
                k += 1
            if e > ends[k]:
                raise Violation(
                    "attr-splits-character",
                    f"{what}: row {y}: an attribute run boundary falls inside the character {joined[s:e]!r} "
                    f"(runs {runs[i:j]!r})",
                )
            a = runs[i + k][0]
            if w == 0:
                zw.setdefault(len(cols), []).append(a)
            else:
                for h in range(w):
                    cols.append((a, h, w))
        i = j
    return cols, zw


def expected_line(src: Source, segs, mode, what, y):
    """layout line -> (x0, line, zw): line[c] = ("c", attr, half, width) | ("pad",) | ("ins",) | ("mark", attr)"""
    text, uattr = src.text, src.uattr
    x0, line, zw = 0, [], {}
    for k, seg in enumerate(segs):
        if len(seg) == 2:
            n, offs = seg
            if offs is None:
                if n < 0:
                    if k != 0:
                        raise Discard()  # not a documented form (C03)
                    x0 = -n
                else:
                    line.extend([("pad",)] * n)
            else:
                line.extend([("ins",)] * n)
            continue
        sc, offs, third = seg
        if isinstance(third, bytes):
            a = uattr[offs] if 0 <= offs < len(uattr) else None
            mw = W.width(third, mode)
            if mw != sc:
                _stat("skip:layout-width-disagrees")
                raise Discard()  # C03: the layout's column count for the mark is wrong
            line.extend([("mark", a)] * sc)
            continue
        if not (isinstance(third, int) and 0 <= offs < third <= len(text)):
            raise Discard()  # not a documented text segment (C03)
        seen = 0
        for s, e, w in W.chars(text[offs:third], mode):
            a = uattr[offs + s]
            if any(uattr[offs + q] != a for q in range(s + 1, e)):
                raise AssertionError("harness: markup boundary inside a character")
            if w == 0:
                zw.setdefault(len(line), []).append(a)
            else:
                for h in range(w):
                    line.append(("c", a, h, w))
                seen += w
        if seen != sc:
            _stat("skip:layout-width-disagrees")
            raise Discard()  # C03/C11: the layout and the width oracle disagree on this segment
    return x0, line, zw


class _What:
    __slots__ = ("case", "text", "markup", "note")

    def __init__(self, case, text, markup=None, note=""):
        self.case, self.text, self.note = case, text, note
        self.markup = case["markup"] if markup is None else markup

    def __str__(self):
        c = self.case
        return (f"[{c['enc']} {c['wrap']}/{c['align']} width {c['width']}{self.note}] {self.text!r} "
                f"markup {self.markup!r}")


def _same_attr(a, b):
    return a is b or (type(a) is type(b) and a == b)


def _morph(old, new):
    """Edit the (live, urwid form) markup object `old` *in place* so that it becomes equal to `new`, as far as its
    structure allows: a list stays the same list object (items edited, deleted, appended; lists nested at the same
    position -- directly or inside a tag tuple with the same attribute -- are edited in place in turn); strings and
    tuples are immutable and are replaced.  -> the object to use (``old`` itself whenever it could be kept)."""
    if isinstance(old, list) and isinstance(new, list):
        n = min(len(old), len(new))
        for i in range(n):
            old[i] = _morph(old[i], new[i])
        old[n:] = new[n:]
        return old
    if isinstance(old, tuple) and isinstance(new, tuple) and _same_attr(old[0], new[0]):
        if _morph(old[1], new[1]) is old[1]:  # kept: edited in place (a list, or a tuple around one) or identical
            return old
    return new


def check_markup(case):
    """case: {"enc", "bytes", "markup", "width", "wrap", "align"[, "then": [["same"|"fresh", markup], ...]]}
    "then": further markups given to the *same* Text widget with set_text(), each looked at like the first one.
    "fresh": a newly built markup object; "same": the markup object handed over before, edited in place by the
    caller (``_morph``) and passed again."""
    enc, is_bytes = case["enc"], bool(case["bytes"])
    width, wrap, align = case["width"], case["wrap"], case["align"]
    if enc not in ENCODINGS or wrap not in WRAPS or align not in ALIGNS or not isinstance(width, int) or width < 1:
        raise Discard()
    then = case.get("then") or []
    if not isinstance(then, list) or any(
        not (isinstance(st_, list) and len(st_) == 2 and st_[0] in ("same", "fresh")) for st_ in then
    ):
        raise Discard()
    mode = _set_encoding(enc)
    src = source_of(case)
    later = [source_of(case, markup=node) for _, node in then]  # soundness preconditions first (may Discard)
    conv = (lambda s: s.encode(enc)) if is_bytes else (lambda s: s)
    live = build_markup(case["markup"], conv)
    w = urwid.Text(live, align=align, wrap=wrap)
    _check_text_widget(w, src, case, _What(case, src.text), mode)
    for k, ((how, node), src_k) in enumerate(zip(then, later)):
        new = build_markup(node, conv)
        if how == "same":
            kept = _morph(live, new)
            if kept is live:
                _stat("set_text:same-object-edited-in-place")
            else:
                _stat("set_text:top-level-object-replaced")
            live = kept
        else:
            live = new
            _stat("set_text:fresh-object")
        w.set_text(live)
        note = f"; set_text() #{k + 1} ({'the same object, edited in place' if how == 'same' else 'a new object'})"
        _check_text_widget(w, src_k, case, _What(case, src_k.text, node, note), mode)


def _check_text_widget(w, src, case, what, mode):
    width = case["width"]
    got_text, got_attr = w.get_text()
    if got_text != src.text and not (len(got_text) == 0 and len(src.text) == 0):
        raise Violation("markup-text", f"{what}: Text.get_text() gives {got_text!r}")
    layout = w.get_line_translation(width)
    canv = w.render((width,))
    content = list(canv.content())
    if len(content) != len(layout) or canv.cols() != width:
        # C03's subject (rows agree with the layout); without it columns cannot be located
        _stat("skip:rows-disagree-with-layout")
        raise Discard()
    for y, (runs, segs) in enumerate(zip(content, layout)):
        acols, azw = decode_row(runs, mode, what, y)
        if len(acols) != width:
            raise Violation("grid", f"{what}: row {y} occupies {len(acols)} columns: {runs!r}")
        x0, line, ezw = expected_line(src, segs, mode, what, y)
        nline = len(line)
        for c in range(width):
            a_attr, a_half, a_w = acols[c]
            lc = x0 + c
            e = line[lc] if lc < nline else ("pad",)
            kind = e[0]
            if kind == "pad":
                if a_attr is not None:
                    raise Violation(
                        "padding-attr",
                        f"{what}: row {y} column {c} is alignment padding / fill but carries {a_attr!r} ({runs!r})",
                    )
            elif kind == "ins":
                _stat("skip:inserted-space")
            elif kind == "mark":
                if a_attr != e[1]:
                    raise Violation(
                        "ellipsis-attr",
                        f"{what}: row {y} column {c}: the ellipsis mark carries {a_attr!r}, the attribute at its "
                        f"offset is {e[1]!r} (layout {segs!r}, row {runs!r})",
                    )
            else:
                _, e_attr, e_half, e_w = e
                start = lc - e_half
                if start < x0 or start + e_w > x0 + width:
                    _stat("skip:cut-double-width")
                    continue
                if (a_half, a_w) != (e_half, e_w):
                    _stat("skip:geometry-differs")
                    continue
                if a_attr != e_attr:
                    raise Violation(
                        "char-attr",
                        f"{what}: row {y} column {c} carries {a_attr!r}, the innermost tag of the character shown "
                        f"there is {e_attr!r} (layout {segs!r}, row {runs!r})",
                    )
        for b in set(azw) | {k - x0 for k in ezw if 0 <= k - x0 <= width}:
            if (b == 0 and x0 > 0) or b == width:
                _stat("skip:zero-width-at-window-edge")
                continue
            got, exp = azw.get(b, []), ezw.get(b + x0, [])
            if len(got) != len(exp):
                _stat("skip:zero-width-count-differs")
                continue
            if got != exp:
                raise Violation(
                    "zero-width-attr",
                    f"{what}: row {y}: zero-width characters after column {b - 1} carry {got!r}, their tags say "
                    f"{exp!r} (layout {segs!r}, row {runs!r})",
                )


# ---------------------------------------------------------------------------------------------
# (a2) clipped views of a rendered Text: column / row windows, padding, maps -- a model of expected cells


def _base_model(src, w, width, mode):
    """Expected cells of Text.render((width,)) from the documented layout structure and the source walk.
    -> (rows, zws): rows[y][c] = ("c", attr, alts, half, cw, cid) | ("pad", attr) | ("mark", attr) | ("skip",)
    zws[y] = {column boundary: [attr, ...] | None (not asserted)}.  `alts` are further attributes a blank cell
    standing in for the character when a window edge cuts it may carry (weaker reading, see the docstring)."""
    layout = w.get_line_translation(width)
    rows, zws = [], []
    for y, segs in enumerate(layout):
        x0, line, ezw = expected_line(src, segs, mode, None, y)
        nline = len(line)
        row = []
        for c in range(width):
            lc = x0 + c
            e = line[lc] if lc < nline else ("pad",)
            kind = e[0]
            if kind == "pad":
                row.append(("pad", None))
            elif kind == "ins":
                row.append(("skip",))
            elif kind == "mark":
                row.append(("mark", e[1]))
            else:
                _, e_attr, e_half, e_w = e
                start = lc - e_half
                if start < x0 or start + e_w > x0 + width:
                    row.append(("skip",))  # cut by the layout's own clip window: nothing asserted (as in `markup`)
                else:
                    # zero-width characters that follow the character share its cell
                    alts = (None, *ezw.get(start + e_w, ()))
                    row.append(("c", e_attr, alts, e_half, e_w, (y, start)))
        zw = {}
        for k, attrs in ezw.items():
            b = k - x0
            if 0 <= b <= width:
                zw[b] = list(attrs)
        zw[width] = None  # edges of the layout's own window: not asserted (as in `markup`)
        if x0 > 0:
            zw[0] = None
        rows.append(row)
        zws.append(zw)
    return layout, rows, zws


def _m_lr(rows, zws, left, right):
    """model of CompositeCanvas.pad_trim_left_right: values < 0 trim, values > 0 pad (documented)"""
    out_r, out_z = [], []
    for row, zw in zip(rows, zws):
        tl, tr = max(0, -left), max(0, -right)
        n = len(row) - tl - tr
        row = row[tl:tl + n]
        z = {}
        for b, v in zw.items():
            nb = b - tl
            if 0 <= nb <= n:
                z[nb] = v
        if tl:
            z[0] = None  # window edge: not asserted
        if tr:
            z[n] = None
        pl, pr = max(0, left), max(0, right)
        if pl:
            row = [("pad", None)] * pl + row
            z = {b + pl: v for b, v in z.items()}
        if pr:
            row = row + [("pad", None)] * pr
        out_r.append(row)
        out_z.append(z)
    return out_r, out_z


def _m_tb(rows, zws, top, bottom):
    tt, tb = max(0, -top), max(0, -bottom)
    n = len(rows) - tt - tb
    cols = len(rows[0])
    rows, zws = rows[tt:tt + n], zws[tt:tt + n]
    pt, pb = max(0, top), max(0, bottom)
    rows = [[("pad", None)] * cols for _ in range(pt)] + rows + [[("pad", None)] * cols for _ in range(pb)]
    zws = [{} for _ in range(pt)] + zws + [{} for _ in range(pb)]
    return rows, zws


def _m_map(rows, zws, mapping):
    def m(a):
        return mapping[a] if a in mapping else a

    out_r = []
    for row in rows:
        r = []
        for e in row:
            k = e[0]
            if k == "c":
                r.append(("c", m(e[1]), tuple(m(a) for a in e[2]), e[3], e[4], e[5]))
            elif k in ("pad", "mark", "top"):
                r.append((k, m(e[1])))
            else:
                r.append(e)
        out_r.append(r)
    out_z = [{b: (None if v is None else [m(a) for a in v]) for b, v in zw.items()} for zw in zws]
    return out_r, out_z


def _compare_model(content, rows, zws, mode, what):
    if len(content) != len(rows):
        raise Violation("grid", f"{what}: {len(content)} rows, expected {len(rows)}")
    for y, (runs, row, ezw) in enumerate(zip(content, rows, zws)):
        acols, azw = decode_row(runs, mode, what, y)
        n = len(row)
        if len(acols) != n:
            raise Violation("grid", f"{what}: row {y} occupies {len(acols)} columns, expected {n}: {runs!r}")
        for c in range(n):
            a_attr, a_half, a_w = acols[c]
            e = row[c]
            kind = e[0]
            if kind == "pad":
                if a_attr != e[1]:
                    raise Violation(
                        "padding-attr",
                        f"{what}: row {y} column {c} is padding / fill and carries {a_attr!r}, expected {e[1]!r} "
                        f"({runs!r})",
                    )
            elif kind == "top":
                if a_attr != e[1]:
                    raise Violation(
                        "overlay-top-attr",
                        f"{what}: row {y} column {c} belongs to the top widget (attribute {e[1]!r}) and carries "
                        f"{a_attr!r} ({runs!r})",
                    )
            elif kind == "mark":
                if a_attr != e[1]:
                    raise Violation(
                        "ellipsis-attr",
                        f"{what}: row {y} column {c}: the ellipsis mark carries {a_attr!r}, the attribute at its "
                        f"offset is {e[1]!r} (row {runs!r})",
                    )
            elif kind == "c":
                _, e_attr, alts, e_half, e_w, cid = e
                first = c - e_half
                whole = first >= 0 and first + e_w <= n and all(
                    row[q][0] == "c" and row[q][5] == cid for q in range(first, first + e_w)
                )
                if whole:
                    if (a_half, a_w) != (e_half, e_w):
                        _stat("skip:geometry-differs")
                        continue
                    if a_attr != e_attr:
                        raise Violation(
                            "char-attr",
                            f"{what}: row {y} column {c} carries {a_attr!r}, the innermost tag of the character "
                            f"shown there (through the maps) is {e_attr!r} (row {runs!r})",
                        )
                    _stat("clip:whole-character-cells")
                else:
                    # one half of a double-width character lies outside the window: a one-column stand-in
                    if (a_half, a_w) != (0, 1):
                        _stat("skip:geometry-differs")
                        continue
                    if a_attr != e_attr and a_attr not in alts:
                        raise Violation(
                            "clip-standin-attr",
                            f"{what}: row {y} column {c} stands in for a double-width character cut by the window "
                            f"edge and carries {a_attr!r}; the character's attribute (through the maps) is "
                            f"{e_attr!r} (also accepted: {alts!r}) -- a neighbour's attribute was shifted onto it "
                            f"(row {runs!r})",
                        )
                    _stat("clip:standin-cells")
                    if a_attr == e_attr:
                        _stat("clip:standin-cells-own-attr")
            else:
                _stat("skip:inserted-space-or-layout-cut")
        for b in sorted(set(azw) | set(ezw)):
            exp = ezw.get(b, [])
            if exp is None:
                _stat("skip:zero-width-at-window-edge")
                continue
            got = azw.get(b, [])
            if len(got) != len(exp):
                _stat("skip:zero-width-count-differs")
                continue
            if got != exp:
                raise Violation(
                    "zero-width-attr",
                    f"{what}: row {y}: zero-width characters after column {b - 1} carry {got!r}, their tags "
                    f"(through the maps) say {exp!r} (row {runs!r})",
                )


VIAS = ("ops", "content", "overlay", "padclip")
TOP_ATTR = "TOP"


def _pairs_mapping(pairs):
    return {dec_attr(k): dec_attr(v) for k, v in pairs}


def check_clip(case):
    """case: markup case + {"via": "ops"|"content"|"overlay"|"padclip", ...}
    ops:     "ops": [["lr", l, r] | ["tb", t, b] | ["map", [[k, v], ...]] | ["fill", a], ...] on
             CompositeCanvas(Text canvas); l/r/t/b < 0 trim (taken modulo what is left so that >= 1 column / row
             stays), > 0 pad
    content: "win": [trim_left, trim_top, cols, rows] (modulo the canvas size), "map": pairs | None
             -> TextCanvas.content(trim_left, trim_top, cols, rows, attr)
    overlay: "win": [left, top, cols, rows] rectangle covered by the top widget of an Overlay over
             Filler(Text, 'top') (inside AttrMap(.., map) when "map" is given)
    padclip: Padding(Text, align=palign, width='clip').render((cols,)); "width" of the case is not used"""
    enc, is_bytes = case["enc"], bool(case["bytes"])
    width, wrap, align, via = case["width"], case["wrap"], case["align"], case.get("via")
    if enc not in ENCODINGS or wrap not in WRAPS or align not in ALIGNS or not isinstance(width, int) or width < 1:
        raise Discard()
    if via not in VIAS:
        raise Discard()
    mode = _set_encoding(enc)
    src = source_of(case)
    conv = (lambda s: s.encode(enc)) if is_bytes else (lambda s: s)
    w = urwid.Text(build_markup(case["markup"], conv), align=align, wrap=wrap)
    if via == "padclip":
        # clipping mode renders the Text at its natural width: the longest line
        width = src.max_pw
        if width < 1:
            raise Discard()
        if w.pack(())[0] != width:
            _stat("skip:pack-width-disagrees")
            raise Discard()  # C06/C11's subject
    layout, rows, zws = _base_model(src, w, width, mode)
    what = f"[{enc} {wrap}/{align} width {width} via {via}] {src.text!r} markup {case['markup']!r}"
    mapping = None
    if case.get("map") is not None:
        mapping = _pairs_mapping(case["map"])

    def base_canvas():
        canv = w.render((width,))
        if canv.rows() != len(layout) or canv.cols() != width:
            _stat("skip:rows-disagree-with-layout")
            raise Discard()  # C03's subject
        return canv

    def window(win, ncols, nrows):
        if not (isinstance(win, list) and len(win) == 4 and all(isinstance(v, int) for v in win)):
            raise Discard()
        left = win[0] % ncols
        top = win[1] % nrows
        return left, top, 1 + win[2] % (ncols - left), 1 + win[3] % (nrows - top)

    if via == "content":
        canv = base_canvas()
        left, top, cols, nr = window(case["win"], width, len(rows))
        what += f" content({left}, {top}, {cols}, {nr}, attr={mapping!r})"
        rows, zws = _m_lr(rows, zws, -left, -(width - left - cols))
        rows, zws = _m_tb(rows, zws, -top, -(len(rows) - top - nr))
        if mapping is not None:
            rows, zws = _m_map(rows, zws, mapping)
        content = list(canv.content(left, top, cols, nr, dict(mapping) if mapping is not None else None))
        _compare_model(content, rows, zws, mode, what)
        return

    if via == "ops":
        comp = urwid.CompositeCanvas(base_canvas())
        for i, op in enumerate(case.get("ops", [])):
            k = op[0]
            if k in ("lr", "tb"):
                a, b = op[1], op[2]
                if not (isinstance(a, int) and isinstance(b, int)) or a > 8 or b > 8:
                    raise Discard()
                size = len(rows[0]) if k == "lr" else len(rows)
                if a < 0:
                    a = -((-a) % size)
                if b < 0:
                    b = -((-b) % (size + min(a, 0)))
                if k == "lr":
                    comp.pad_trim_left_right(a, b)
                    rows, zws = _m_lr(rows, zws, a, b)
                else:
                    comp.pad_trim_top_bottom(a, b)
                    rows, zws = _m_tb(rows, zws, a, b)
                step = f"{k}({a}, {b})"
            elif k == "map":
                mp = _pairs_mapping(op[1])
                comp.fill_attr_apply(dict(mp))
                rows, zws = _m_map(rows, zws, mp)
                step = f"fill_attr_apply({mp!r})"
            elif k == "fill":
                a = dec_attr(op[1])
                comp.fill_attr(a)
                rows, zws = _m_map(rows, zws, {None: a})
                step = f"fill_attr({a!r})"
            else:
                raise Discard()
            what += " " + step
            if comp.cols() != len(rows[0]) or comp.rows() != len(rows):
                raise Violation("grid", f"{what}: canvas is {comp.cols()}x{comp.rows()}, expected "
                                        f"{len(rows[0])}x{len(rows)}")
            _compare_model(list(comp.content()), rows, zws, mode, what)
        return

    if via == "overlay":
        nrows = len(rows)
        left, top, cols, nr = window(case["win"], width, nrows)
        what += f" Overlay top widget at columns {left}..{left + cols - 1}, rows {top}..{top + nr - 1}, map {mapping!r}"
        if mapping is not None:
            rows, zws = _m_map(rows, zws, mapping)
        for y in range(top, top + nr):
            rows[y] = rows[y][:left] + [("top", TOP_ATTR)] * cols + rows[y][left + cols:]
            z = {b: v for b, v in zws[y].items() if not left <= b <= left + cols}
            z[left] = None
            z[left + cols] = None
            zws[y] = z
        if w.rows((width,)) != nrows:
            _stat("skip:rows-disagree-with-layout")
            raise Discard()  # C03's subject
        bottom = urwid.Filler(w, "top")
        if mapping is not None:
            bottom = urwid.AttrMap(bottom, dict(mapping))
        top_w = urwid.AttrMap(urwid.SolidFill("t"), TOP_ATTR)
        with warnings.catch_warnings(record=True) as wlist:
            warnings.simplefilter("always")
            ov = urwid.Overlay(top_w, bottom, ("fixed left", left), cols, ("fixed top", top), nr)
            canv = ov.render((width, nrows))
        for wr in wlist:
            if not issubclass(wr.category, (PendingDeprecationWarning, DeprecationWarning)):
                raise Discard()  # a sizing warning: the case is mis-built
        _compare_model(list(canv.content()), rows, zws, mode, what)
        return

    # padclip
    cols, palign = case.get("cols"), case.get("palign")
    if not isinstance(cols, int) or cols < 1 or palign not in ("left", "right"):
        raise Discard()
    what += f" Padding(align={palign!r}, width='clip').render(({cols},))"
    # documented: "if align is 'left' then self.original_widget may be clipped on the right" (and padded there when
    # narrower); 'right' mirrored.  'center' is not used (how the excess is split is C19's subject).
    if palign == "left":
        rows, zws = _m_lr(rows, zws, 0, cols - width)
    else:
        rows, zws = _m_lr(rows, zws, cols - width, 0)
    with warnings.catch_warnings(record=True) as wlist:
        warnings.simplefilter("always")
        canv = urwid.Padding(w, align=palign, width="clip").render((cols,))
    for wr in wlist:
        if not issubclass(wr.category, (PendingDeprecationWarning, DeprecationWarning)):
            raise Discard()
    if canv.rows() != len(rows):
        _stat("skip:rows-disagree-with-layout")
        raise Discard()
    _compare_model(list(canv.content()), rows, zws, mode, what)


# ---------------------------------------------------------------------------------------------
# (b) attribute maps


def dec_map(j):
    """JSON map spec -> what is handed to AttrMap: ["one", attr] -> attr ; ["dict", [[k, v], ...]] -> dict ; None"""
    if j is None:
        return None
    if j[0] == "one":
        return dec_attr(j[1])
    if j[0] == "dict":
        return {dec_attr(k): dec_attr(v) for k, v in j[1]}
    raise Discard()


def as_mapping(j):
    """the mapping a map spec stands for (AttrMap docs: a single attribute a means {None: a})"""
    if j is None:
        return None
    if j[0] == "one":
        return {None: dec_attr(j[1])}
    return {dec_attr(k): dec_attr(v) for k, v in j[1]}


def apply_mapping(grid, mapping):
    out = []
    for row in grid:
        r = []
        for cell in row:
            if C.is_cont(cell):
                r.append(cell)
            else:
                a = cell[1]
                r.append((cell[0], mapping[a] if a in mapping else a, cell[2]))
        out.append(r)
    return out


class _Probe(urwid.WidgetWrap):
    """records the focus flag and the cell grid of what its child renders; otherwise transparent"""

    def __init__(self, w, log, key, mode):
        super().__init__(w)
        self._plog, self._pkey, self._pmode = log, key, mode

    def render(self, size, focus=False):
        canv = self._w.render(size, focus=focus)
        try:
            grid = C.normalize(C.grid_of(canv, self._pmode))
            err = None
        except C.GridError as e:
            grid, err = None, str(e)
        self._plog.setdefault(self._pkey, []).append((bool(focus), tuple(size), grid, err))
        return urwid.CompositeCanvas(canv)


def _min_width(node):
    k = node[0]
    if k == "text":
        return 1
    if k == "map":
        return _min_width(node[4])
    if k == "pile":
        return max(_min_width(c) for c in node[1])
    if k == "cols":
        n = len(node[1])
        return n * max(_min_width(c) for c in node[1]) + node[3] * (n - 1) + n
    raise Discard()


def _build_tree(node, enc, is_bytes, log, maps, path, mode):
    """-> widget; maps gets (key_out, key_in, node) per map node"""
    k = node[0]
    if k == "text":
        _, markup, align, wrap = node
        conv = (lambda s: s.encode(enc)) if is_bytes else (lambda s: s)
        return urwid.Text(build_markup(markup, conv), align=align, wrap=wrap)
    if k == "map":
        _, kind, amap, fmap, child = node
        inner = _Probe(_build_tree(child, enc, is_bytes, log, maps, path + "m", mode), log, path + "/in", mode)
        if kind == "AttrWrap":
            if amap is None or amap[0] != "one" or (fmap is not None and fmap[0] != "one"):
                raise Discard()
            with warnings.catch_warnings():
                warnings.simplefilter("ignore", PendingDeprecationWarning)
                wdg = urwid.AttrWrap(inner, dec_attr(amap[1]), None if fmap is None else dec_attr(fmap[1]))
            if fmap is not None and dec_attr(fmap[1]) is None:
                fmap = None  # AttrWrap: focus_attr None means "use attr"
        elif kind == "AttrMap":
            if amap is None:
                raise Discard()
            wdg = urwid.AttrMap(inner, dec_map(amap), dec_map(fmap))
            if fmap is not None and fmap[0] == "one" and dec_attr(fmap[1]) is None:
                fmap = None  # AttrMap(w, a, None): "if None use attr"
        else:
            raise Discard()
        maps.append((path + "/out", path + "/in", amap, fmap))
        return _Probe(wdg, log, path + "/out", mode)
    if k == "pile":
        _, children, fpos = node
        ws = [_build_tree(c, enc, is_bytes, log, maps, f"{path}p{i}", mode) for i, c in enumerate(children)]
        p = urwid.Pile(ws)
        p.focus_position = fpos % len(ws)
        return p
    if k == "cols":
        _, children, fpos, div = node
        ws = [_build_tree(c, enc, is_bytes, log, maps, f"{path}c{i}", mode) for i, c in enumerate(children)]
        p = urwid.Columns(ws, dividechars=div)
        p.focus_position = fpos % len(ws)
        return p
    raise Discard()


def _tree_texts(node, out):
    k = node[0]
    if k == "text":
        out.append(node)
    elif k == "map":
        _tree_texts(node[4], out)
    else:
        for c in node[1]:
            _tree_texts(c, out)
    return out


def _map_depth(node):
    k = node[0]
    if k == "text":
        return 0
    if k == "map":
        return 1 + _map_depth(node[4])
    return max(_map_depth(c) for c in node[1])


def _grid(canv, mode, what):
    try:
        return C.normalize(C.grid_of(canv, mode))
    except C.GridError as e:
        raise Violation("grid", f"{what}: {e}") from None


def _cmp_grids(got, exp, clause, what):
    d = C.diff(got, exp)
    if d is not None:
        raise Violation(clause, f"{what}: {d} (got, expected)")


def check_maps(case):
    """case: {"enc", "bytes", "tree", "width", "focus", "ops"}"""
    enc, is_bytes, tree = case["enc"], bool(case["bytes"]), case["tree"]
    width, focus, ops = case["width"], bool(case["focus"]), case.get("ops", [])
    if enc not in ENCODINGS or not isinstance(width, int) or width < _min_width(tree) or width > 200:
        raise Discard()
    mode = _set_encoding(enc)
    for t in _tree_texts(tree, []):
        Source(t[1], enc, is_bytes, mode)  # soundness preconditions on the text (may Discard)
        if t[2] not in ALIGNS or t[3] not in WRAPS:
            raise Discard()
    log, maps = {}, []
    with warnings.catch_warnings(record=True) as wlist:
        warnings.simplefilter("always")
        root = _Probe(_build_tree(tree, enc, is_bytes, log, maps, "r", mode), log, "root", mode)
        canv = root.render((width,), focus=focus)
    for wr in wlist:
        if not issubclass(wr.category, (PendingDeprecationWarning, DeprecationWarning)):
            raise Discard()  # a sizing warning: the case is mis-built
    what = f"[{enc} width {width} focus {focus}] tree {tree!r}"
    for key, recs in log.items():
        for rec in recs:
            if rec[3] is not None:
                raise Violation("grid", f"{what}: canvas at {key}: {rec[3]}")
    for key_out, key_in, amap, fmap in maps:
        outs, ins = log.get(key_out, []), log.get(key_in, [])
        if len(outs) != len(ins):
            raise Discard()  # a container rendered the child a different number of times: nothing to pair
        for (f_out, size_o, g_out, _), (f_in, size_i, g_in, _) in zip(outs, ins):
            if size_o != size_i:
                raise Discard()
            if f_in != f_out:
                raise Violation(
                    "focus-passed", f"{what}: map at {key_out} rendered with focus={f_out} renders its child with focus={f_in}"
                )
            use = as_mapping(fmap) if (f_out and fmap is not None) else as_mapping(amap)
            which = "focus map" if (f_out and fmap is not None) else "attribute map"
            _cmp_grids(g_out, apply_mapping(g_in, use), "map-law",
                       f"{what}: map at {key_out} (focus={f_out}, {which} {use!r}) over {g_in!r} gave {g_out!r}")
    root_grid = _grid(canv, mode, what)
    # end-to-end form for a pure chain around one Text
    chain, node = [], tree
    while node[0] == "map":
        chain.append(node)
        node = node[4]
    if node[0] == "text" and chain:
        _set_encoding(enc)
        conv = (lambda s: s.encode(enc)) if is_bytes else (lambda s: s)
        base = _grid(urwid.Text(build_markup(node[1], conv), align=node[2], wrap=node[3]).render((width,)), mode, what)
        exp = base
        for m in reversed(chain):
            _, kind, amap, fmap, _ = m
            if fmap is not None and fmap[0] == "one" and dec_attr(fmap[1]) is None:
                fmap = None
            exp = apply_mapping(exp, as_mapping(fmap) if (focus and fmap is not None) else as_mapping(amap))
        _cmp_grids(root_grid, exp, "map-chain", f"{what}: base {base!r}")
    # canvas-level steps
    if ops:
        comp = urwid.CompositeCanvas(canv)
        model = root_grid
        for i, op in enumerate(ops):
            if op[0] == "fill":
                a = dec_attr(op[1])
                comp.fill_attr(a)
                mapping = {None: a}
            elif op[0] == "apply":
                mapping = as_mapping(["dict", op[1]])
                comp.fill_attr_apply(dict(mapping))
            else:
                raise Discard()
            model = apply_mapping(model, mapping)
            _cmp_grids(_grid(comp, mode, what), model, "canvas-map-law", f"{what}: after canvas step {i} of {ops!r}")
        _cmp_grids(_grid(canv, mode, what), root_grid, "canvas-map-operand",
                   f"{what}: the wrapped canvas changed under fill_attr_apply of its wrapper")


# ---------------------------------------------------------------------------------------------
# (c) palette -> SGR

SETTINGS = ("bold", "italics", "underline", "blink", "standout", "strikethrough")
VT_FLAG = {"bold": "bold", "italics": "italic", "underline": "underline", "blink": "blink", "standout": "reverse",
           "strikethrough": "strike"}
BASIC = (
    "black", "dark red", "dark green", "brown", "dark blue", "dark magenta", "dark cyan", "light gray",
    "dark gray", "light red", "light green", "yellow", "light blue", "light magenta", "light cyan", "white",
)
BASIC_INDEX = {n: i for i, n in enumerate(BASIC)}
BASIC_RGB = (
    (0, 0, 0), (205, 0, 0), (0, 205, 0), (205, 205, 0), (0, 0, 238), (205, 0, 205), (0, 205, 205),
    (229, 229, 229), (127, 127, 127), (255, 0, 0), (0, 255, 0), (255, 255, 0), (92, 92, 255),
    (255, 0, 255), (0, 255, 255), (255, 255, 255),
)
CUBE = {256: (0, 95, 135, 175, 215, 255), 88: (0, 139, 205, 255)}
XTERM256 = list(BASIC_RGB) + [(r, g, b) for r in CUBE[256] for g in CUBE[256] for b in CUBE[256]] + [
    (8 + 10 * i,) * 3 for i in range(24)
]
ANY = "any"  # colour not asserted


def _parse_spec(s):
    """palette foreground/background/mono string -> (colour token or None for default, frozenset of settings)
    by the documented grammar: comma separated, one colour, settings 'bold' ... 'strikethrough'."""
    colour, settings = None, set()
    for raw in s.split(","):
        part = raw.strip(" ")
        if part in SETTINGS:
            settings.add(part)
        elif part in ("", "default"):
            pass
        else:
            if colour is not None:
                raise AssertionError(f"harness: two colours in {s!r}")
            colour = part
    return colour, frozenset(settings)


def _h_number(tok):
    if tok is not None and tok[:1] == "h" and tok[1:].isdigit():
        return int(tok[1:])
    return None


def _nearest(levels, v):
    best = min(abs(x - v) for x in levels)
    return [i for i, x in enumerate(levels) if abs(x - v) == best]


def _colour_expect(tok, depth, side, bib):
    """-> (set of acceptable VT colours | ANY, extra flags). depth: the depth the strings are read at."""
    if tok is None:
        return {None}, frozenset()
    if tok in BASIC_INDEX:
        i = BASIC_INDEX[tok]
        if depth < 16:
            raise AssertionError("harness: colour at depth 1")
        if side == "fg" and i >= 8 and bib:
            return {i - 8}, frozenset(["bold"])
        return {i}, frozenset()
    n = _h_number(tok)
    if n is not None:
        if depth == T24:
            return {n, XTERM256[n]}, frozenset()
        return {n}, frozenset()
    if tok.startswith("#") and len(tok) == 4:
        digits = [int(c, 16) for c in tok[1:]]
        if depth in (88, 256):
            lv = CUBE[depth]
            size = len(lv)
            opts = [_nearest(lv, d * 17) for d in digits]
            return {16 + (r * size + g) * size + b for r in opts[0] for g in opts[1] for b in opts[2]}, frozenset()
        lv = CUBE[256]
        opts = [_nearest(lv, d * 17) for d in digits]
        acc = {tuple(d * 17 for d in digits)}
        for r in opts[0]:
            for g in opts[1]:
                for b in opts[2]:
                    acc.add((lv[r], lv[g], lv[b]))
                    acc.add(16 + (r * 6 + g) * 6 + b)
        return acc, frozenset()
    if tok.startswith("#") and len(tok) == 7:
        if depth == T24:
            return {(int(tok[1:3], 16), int(tok[3:5], 16), int(tok[5:7], 16))}, frozenset()
        return ANY, frozenset()
    if tok.startswith("g"):
        return ANY, frozenset()
    raise AssertionError(f"harness: unknown colour token {tok!r}")


def _expect_strings(fg, bg, depth, bib):
    """(fg string, bg string) read at `depth` -> (fg set, bg set, flags)"""
    fcol, fset = _parse_spec(fg)
    bcol, bset = _parse_spec(bg)
    if bset:
        raise AssertionError("harness: settings in a background")
    fexp, extra = _colour_expect(fcol, depth, "fg", bib)
    bexp, _ = _colour_expect(bcol, depth, "bg", bib)
    return fexp, bexp, frozenset(VT_FLAG[s] for s in fset) | extra


def _entry_expect(entry, depth, bib):
    """palette entry {"fg","bg","mono","fgh","bgh"} at the active depth -> list of acceptable (fg, bg, flags)"""
    fg, bg, mono = entry["fg"], entry["bg"], entry["mono"]
    fgh = entry["fgh"] if entry["fgh"] is not None else fg
    bgh = entry["bgh"] if entry["bgh"] is not None else bg
    if depth == 1:
        col, sett = _parse_spec(mono if mono is not None else "default")
        if col is not None:
            raise AssertionError("harness: colour in a mono string")
        return [({None}, {None}, frozenset(VT_FLAG[s] for s in sett))]
    if depth == 16:
        return [_expect_strings(fg, bg, 16, bib)]
    if depth == 88:
        hs = [n for n in (_h_number(_parse_spec(fgh)[0]), _h_number(_parse_spec(bgh)[0])) if n is not None]
        if any(n > 87 for n in hs):
            return [_expect_strings(fg, bg, 16, bib)]
        if any(n > 15 for n in hs):
            return [_expect_strings(fg, bg, 16, bib), _expect_strings(fgh, bgh, 88, bib)]
        return [_expect_strings(fgh, bgh, 88, bib)]
    return [_expect_strings(fgh, bgh, depth, bib)]


DEFAULT_EXPECT = [({None}, {None}, frozenset())]
_URWID_245 = (132, 132, 132)  # see KNOWN "C17-rgb-of-colour-245"
_VISIBLE_ON_BLANK = frozenset(["underline", "reverse"])


class _Capture:
    def __init__(self):
        self.parts = []

    def write(self, data):
        self.parts.append(data)

    def flush(self):
        pass

    def take(self):
        out, self.parts = self.parts, []
        return "".join(p if isinstance(p, str) else p.decode("latin-1") for p in out)


def _nkey(j):
    """JSON attribute / palette entry name -> the hashable name urwid is given (str, int, None as they are,
    ["t", ...] -> tuple); this is also the key of the palette model"""
    if isinstance(j, list):
        if not j or j[0] != "t":
            raise Discard()
        return dec_attr(j)
    if isinstance(j, bool):
        raise Discard()
    return j


def _entry_args(e):
    """JSON palette item -> tuple for register_palette"""
    if e[0] == "alias":
        return (_nkey(e[1]), _nkey(e[2]))
    _, name, arity, fg, bg, mono, fgh, bgh = e
    name = _nkey(name)
    if arity == 3:
        return (name, fg, bg)
    if arity == 4:
        return (name, fg, bg, mono)
    return (name, fg, bg, mono, fgh, bgh)


def _register_model(model, items):
    """what the palette documentation says a register_palette(items) call defines"""
    for e in items:
        if e[0] == "alias":
            new, like = _nkey(e[1]), _nkey(e[2])
            if like not in model:
                raise Discard()  # "which must appear before this tuple in the list"
            prev = model.get(new)
            hist = [] if prev is None else [*prev["hist"], dict(prev, hist=[])]
            model[new] = dict(model[like], alias=True, hist=hist)
        else:
            _, name, arity, fg, bg, mono, fgh, bgh = e
            if arity not in (3, 4, 6):
                raise Discard()
            model[_nkey(name)] = {
                "fg": fg, "bg": bg,
                "mono": mono if arity >= 4 else None,
                "fgh": fgh if arity == 6 else None,
                "bgh": bgh if arity == 6 else None,
                "alias": False,
                "hist": [],
            }


def _cell_expect(cell, model, depth, bib):
    """-> (list of acceptable (fgset, bgset, flags), is_alias)"""
    if isinstance(cell, list) and cell and cell[0] == "spec":
        return [_expect_strings(cell[1], cell[2], cell[3], bib)], False
    key = _nkey(cell)
    if key in model:
        return _entry_expect(model[key], depth, bib), model[key]["alias"]
    return DEFAULT_EXPECT, False


def _is_spec(cell):
    return isinstance(cell, list) and bool(cell) and cell[0] == "spec"


def _cell_ok(vc, glyph, acc):
    for fgs, bgs, flags in acc:
        if glyph == " ":
            # a blank cell shows its background (and underline / reverse video) only
            if (bgs is ANY or vc.bg in bgs) and (vc.flags & _VISIBLE_ON_BLANK) == (flags & _VISIBLE_ON_BLANK):
                return True
            continue
        if (fgs is ANY or vc.fg in fgs) and (bgs is ANY or vc.bg in bgs) and vc.flags == flags:
            return True
    return False


def _show_entry(e):
    return None if e is None else {k: v for k, v in e.items() if k != "hist"}


def _show_acc(acc):
    return " or ".join(
        f"(fg {'any' if f is ANY else sorted(f, key=repr)}, bg {'any' if b is ANY else sorted(b, key=repr)}, "
        f"flags {sorted(fl)})" for f, b, fl in acc
    )


def check_sgr(case):
    """case: {"enc", "pre": [depth, bib]|None, "palette": [...], "post": [depth, bib]|None, "late": [...],
    "more": [[depth, bib], ...], "cols": n, "cells": [cell, ...], "glyphs": str}"""
    enc = case.get("enc", "utf-8")
    if enc not in ENCODINGS:
        raise Discard()
    _set_encoding(enc)
    cells, cols = case["cells"], case["cols"]
    glyphs = case.get("glyphs") or "x" * len(cells)
    if not cells or cols < 1 or len(cells) % cols or len(glyphs) != len(cells) or any(g not in "xy #" for g in glyphs):
        raise Discard()
    rows = len(cells) // cols
    for step in [case.get("pre"), case.get("post"), *case.get("more", [])]:
        if step is not None and (step[0] not in DEPTHS or not isinstance(step[1], bool)):
            raise Discard()
    model: dict = {}
    attrs = [dec_attr(c) if isinstance(c, list) else c for c in cells]
    text = [glyphs[r * cols:(r + 1) * cols].encode("ascii") for r in range(rows)]
    attr_rows = [[(attrs[r * cols + c], 1) for c in range(cols)] for r in range(rows)]

    old_term = os.environ.get("TERM")
    os.environ["TERM"] = "xterm"
    rfd, wfd = os.pipe()
    rfile = os.fdopen(rfd, "rb", 0)
    cap = _Capture()
    scr = None
    started = False
    try:
        from urwid.display import raw

        scr = raw.Screen(input=rfile, output=cap)
        depth, bib = 16, False
        states = [(16, False)]
        if case.get("pre") is not None:
            depth, bib = case["pre"]
            scr.set_terminal_properties(colors=depth, bright_is_bold=bib)
            states.append((depth, bib))
        _register_model(model, case["palette"])
        pal_obj = [_entry_args(e) for e in case["palette"]]
        scr.register_palette(pal_obj)
        if case.get("post") is not None:
            depth, bib = case["post"]
            scr.set_terminal_properties(colors=depth, bright_is_bold=bib)
            states.append((depth, bib))
        scr.start()
        started = True
        if case.get("late"):
            _register_model(model, case["late"])
            late_obj = [_entry_args(e) for e in case["late"]]
            if case.get("late_same"):
                # the application keeps its palette list, edits it in place and registers the same object again
                pal_obj[:] = late_obj
                late_obj = pal_obj
            scr.register_palette(late_obj)
        vt = VT(cols, rows, encoding=enc)
        steps = [None, *case.get("more", [])]
        for si, step in enumerate(steps):
            if step is not None:
                depth, bib = step
                scr.set_terminal_properties(colors=depth, bright_is_bold=bib)
            canv = urwid.TextCanvas([bytes(t) for t in text], [list(r) for r in attr_rows], maxcol=cols)
            scr.draw_screen((cols, rows), canv)
            vt.feed(cap.take())
            states.append((depth, bib))
            worst = None  # (priority, clause, message): an ordinary mismatch is reported before the two listed shapes
            for i, cell in enumerate(cells):
                acc, is_alias = _cell_expect(cell, model, depth, bib)
                r, c = divmod(i, cols)
                vc = vt.grid[r][c]
                if _cell_ok(vc, glyphs[i], acc):
                    continue
                msg = (
                    f"[{enc} depth {depth} bright_is_bold {bib} draw {si}] cell {i} ({glyphs[i]!r}, attribute {cell!r}, "
                    f"palette entry {_show_entry(model.get(_nkey(cell))) if not _is_spec(cell) else None}) decoded as fg {vc.fg!r} "
                    f"bg {vc.bg!r} flags {sorted(vc.flags)}; the palette specifies {_show_acc(acc)}"
                )
                prio, clause = 0, "sgr-cell"
                fixed = vc._replace(fg=XTERM256[245] if vc.fg == _URWID_245 else vc.fg,
                                    bg=XTERM256[245] if vc.bg == _URWID_245 else vc.bg)
                if fixed != vc and _cell_ok(fixed, glyphs[i], acc):
                    # the only thing wrong is urwid's RGB for colour 245 (C18's table defect seen through the display)
                    prio, clause = 1, "sgr-cell:rgb-of-245"
                elif is_alias:
                    prio, clause = 2, "sgr-cell:alias"
                    # what the name meant at any earlier time (or nothing), under any of the settings so far
                    stale = [DEFAULT_EXPECT] + [_entry_expect(h, d, b) for h in model[_nkey(cell)]["hist"]
                                                for d, b in states]
                    if any(_cell_ok(vc, glyphs[i], acc2) for acc2 in stale):
                        msg += " [alias shown as the name's previous definition]"
                if worst is None or prio < worst[0]:
                    worst = (prio, clause, msg)
            if worst is not None:
                raise Violation(worst[1], worst[2])
    finally:
        try:
            if scr is not None and started:
                scr.stop()
        finally:
            if scr is not None:
                scr._resize_pipe_rd.close()  # what Screen.__del__ does; not left to the garbage collector
                scr._resize_pipe_wr.close()
            rfile.close()
            os.close(wfd)
            if old_term is None:
                os.environ.pop("TERM", None)
            else:
                os.environ["TERM"] = old_term


SUBS = {
    "markup_short": check_markup,
    "set_text_short": check_markup,
    "markup": check_markup,
    "clip_short": check_clip,
    "clip": check_clip,
    "maps": check_maps,
    "sgr_sweep": check_sgr,
    "sgr": check_sgr,
}


# ---------------------------------------------------------------------------------------------
# enumeration, strategies, classes

SHORT_ALPHABETS = {  # quick uses the first five letters
    "utf-8": ["a", " ", "\n", "漢", "́", "é"],
    "euc-jp": ["a", " ", "\n", "漢", "あ", "b"],
    "iso8859-1": ["a", " ", "\n", "é", "b", "ü"],
}
SHORT_ATTRS = ["A", "B", "C", "D", "E"]


def short_cases(ctx, maxlen, full):
    widths = range(1, 7) if full else range(1, 5)
    for enc in ENCODINGS:
        alpha = SHORT_ALPHABETS[enc] if full else SHORT_ALPHABETS[enc][:5]
        idx = 0
        for n in range(1, maxlen + 1):
            for tup in itertools.product(alpha, repeat=n):
                idx += 1
                if not ctx.mine(idx):
                    continue
                # every character its own tag; second form: every other character untagged (None between runs)
                tagged = ["L", *(["T", SHORT_ATTRS[k % 5], ch] for k, ch in enumerate(tup))]
                forms = [(tagged, False), (tagged, True)]
                if n >= 2:
                    half = ["L", *((["T", SHORT_ATTRS[k % 5], ch] if k % 2 else ch) for k, ch in enumerate(tup))]
                    forms.append((half, False))
                    # third form: neighbours share a tag (equal adjacent attributes are merged by decompose_tagmarkup)
                    pairs = ["L", *(["T", SHORT_ATTRS[(k // 2) % 5], ch] for k, ch in enumerate(tup))]
                    forms.append((pairs, n % 2 == 0))
                    if full:
                        forms.append((half, True))
                        forms.append((pairs, n % 2 == 1))
                for markup, is_bytes in forms:
                    for width in widths:
                        for wrap in WRAPS:
                            for align in ALIGNS:
                                yield {"enc": enc, "bytes": is_bytes, "markup": markup, "width": width,
                                       "wrap": wrap, "align": align}


def set_text_cases(ctx, maxlen, full):
    """every single edit of a short per-character-tagged markup list, made in place on the object the Text was
    given and passed to set_text() again"""
    for enc in ENCODINGS:
        alpha = SHORT_ALPHABETS[enc] if full else SHORT_ALPHABETS[enc][:5]
        other = {ch: alpha[(k + 1) % len(alpha)] for k, ch in enumerate(alpha)}
        idx = 0
        for n in range(1, maxlen + 1):
            for tup in itertools.product(alpha, repeat=n):
                idx += 1
                if not ctx.mine(idx):
                    continue
                items = [["T", SHORT_ATTRS[k % 4], ch] for k, ch in enumerate(tup)]
                half = [(it if k % 2 == 0 else it[2]) for k, it in enumerate(items)]
                edits = []  # (first markup, markup after the edit)
                for base in ((items, half) if n >= 2 else (items,)):
                    for i in range(n):
                        it = base[i]
                        txt = it[2] if isinstance(it, list) else it
                        edits.append((base, base[:i] + [["T", "E", txt]] + base[i + 1:]))         # (re)tagged
                        if isinstance(it, list):
                            edits.append((base, base[:i] + [txt] + base[i + 1:]))                   # tag removed
                        rep = ["T", it[1], other[txt]] if isinstance(it, list) else other[txt]
                        edits.append((base, base[:i] + [rep] + base[i + 1:]))                       # text replaced
                        edits.append((base, base[:i] + base[i + 1:]))                               # item deleted
                    for i in range(n + 1):
                        edits.append((base, base[:i] + [["T", "E", alpha[0]]] + base[i:]))          # item inserted
                    if n >= 2:
                        tags = [it[1] if isinstance(it, list) else None for it in base]
                        tags = tags[-1:] + tags[:-1]
                        txts = [it[2] if isinstance(it, list) else it for it in base]
                        edits.append((base, [x if tg is None else ["T", tg, x] for x, tg in zip(txts, tags)]))  # tags move
                        edits.append((base, base[1:] + base[:1]))                                   # items move
                natural = 0
                for part in "".join(tup).split("\n"):
                    natural = max(natural, sum(max(W.char_width(ch), 0) for ch in part))
                e = 0
                for first, after in edits:
                    for nest in (0, 1, 2):
                        # 0: the list itself; 1: the list inside a tag tuple; 2: the list inside an outer list
                        if nest == 0:
                            m0, m1 = ["L", *first], ["L", *after]
                        elif nest == 1:
                            m0, m1 = ["T", "D", ["L", *first]], ["T", "D", ["L", *after]]
                        else:
                            m0, m1 = ["L", "a", ["L", *first]], ["L", "a", ["L", *after]]
                        e += 1
                        width = (natural + 2) if e % 3 else 2
                        yield {"enc": enc, "bytes": bool(e % 2), "markup": m0, "width": width,
                               "wrap": WRAPS[e % 4], "align": ALIGNS[e % 3], "then": [["same", m1]]}


def clip_short_cases(ctx, maxlen, full):
    """every window of every short per-character-tagged text, through every route"""
    widths = range(1, 6) if full else range(1, 5)
    wraps = WRAPS if full else ("any", "clip")
    aligns = ALIGNS if full else ("left", "right")
    for enc in ENCODINGS:
        alpha = SHORT_ALPHABETS[enc] if full else SHORT_ALPHABETS[enc][:5]
        idx = 0
        for n in range(1, maxlen + 1):
            for tup in itertools.product(alpha, repeat=n):
                idx += 1
                if not ctx.mine(idx):
                    continue
                tagged = ["L", *(["T", SHORT_ATTRS[k % 5], ch] for k, ch in enumerate(tup))]
                forms = [(tagged, False), (tagged, True)]
                if n >= 2:
                    half = ["L", *((["T", SHORT_ATTRS[k % 5], ch] if k % 2 else ch) for k, ch in enumerate(tup))]
                    forms.append((half, False))
                    if full:
                        forms.append((half, True))
                natural = 0
                for part in "".join(tup).split("\n"):
                    natural = max(natural, sum(max(W.char_width(ch), 0) for ch in part))
                for markup, is_bytes in forms:
                    for wrap in wraps:
                        for align in aligns:
                            base = {"enc": enc, "bytes": is_bytes, "markup": markup, "wrap": wrap, "align": align}
                            for width in widths:
                                for left in range(width):
                                    for cols in range(1, width - left + 1):
                                        yield dict(base, width=width, via="content", win=[left, 0, cols - 1, -1],
                                                   map=None)
                                        yield dict(base, width=width, via="overlay", win=[left, 0, cols - 1, 0],
                                                   map=None)
                                        if n >= 2:
                                            yield dict(base, width=width, via="overlay", win=[left, 1, cols - 1, 0],
                                                       map=None)
                                # every trim / pad-by-one combination of the two sides
                                for l in range(-(width - 1), 2):
                                    for r in range(-(width - 1), 2):
                                        if max(0, -l) + max(0, -r) < width:
                                            yield dict(base, width=width, via="ops", ops=[["lr", l, r]])
                            for cols in range(1, natural + 2):
                                for palign in ("left", "right"):
                                    yield dict(base, width=1, via="padclip", cols=cols, palign=palign)


def clip_nontrivial(case):
    """a double-width character in a text with >= 2 attribute runs seen through a view that trims columns"""
    try:
        src = source_of(case)
    except Discard:
        return False
    if not (src.has_wide and src.nruns >= 2):
        return False
    via = case.get("via")
    if via == "ops":
        return any(op[0] == "lr" and (op[1] < 0 or op[2] < 0) for op in case.get("ops", []))
    if via == "padclip":
        return case.get("cols", 0) < src.max_pw
    return True


def clip_classes(case):
    out = [f"clip:via:{case.get('via')}", f"clip:{case['enc']}:{'bytes' if case['bytes'] else 'str'}"]
    if case.get("map") is not None or any(op[0] in ("map", "fill") for op in case.get("ops", [])):
        out.append("clip:with-map")
    if case.get("via") == "ops":
        ops = case.get("ops", [])
        out.append(f"clip:ops:{min(len(ops), 4)}")
        if any(op[0] in ("lr", "tb") and (op[1] > 0 or op[2] > 0) for op in ops):
            out.append("clip:pads")
        if any(op[0] == "tb" for op in ops):
            out.append("clip:rows-trimmed-or-padded")
    try:
        src = source_of(case)
    except Discard:
        return out
    if src.has_wide:
        out.append("clip:double-width")
    if src.has_zero:
        out.append("clip:zero-width")
    return out


def markup_nontrivial(case):
    try:
        src = source_of(case)
    except Discard:
        return False
    return src.multibyte and src.nruns >= 2 and src.max_pw > case["width"]


def markup_classes(case):
    out = [f"markup:{case['enc']}:{'bytes' if case['bytes'] else 'str'}", f"markup:wrap:{case['wrap']}",
           f"markup:align:{case['align']}"]
    try:
        src = source_of(case)
    except Discard:
        return out
    if src.max_pw > case["width"]:
        out.append("markup:needs-wrap-or-clip")
        if src.multibyte and src.nruns >= 2:
            out.append("markup:multibyte-cut-inside-runs")
    if src.has_wide:
        out.append("markup:double-width")
    if src.has_zero:
        out.append("markup:zero-width")
    if any(p == "" for p, _ in src.pieces):
        out.append("markup:empty-string-piece")
    d = markup_depth(case["markup"])
    out.append(f"markup:depth:{min(d, 4)}")
    for how, _ in case.get("then") or []:
        out.append(f"markup:set_text:{how}")
    return out


# Hypothesis draws a "tape" (list of small integers); the builders below turn a tape into a JSON case by reading
# one integer per decision (0 once the tape is exhausted: the simplest choice).  This keeps generation cheap,
# the case serialisable, and shrinking natural (shorter tape / smaller integers = simpler case).


class _Tape:
    __slots__ = ("t", "i")

    def __init__(self, ints):
        self.t, self.i = ints, 0

    def next(self, n):
        v = self.t[self.i] if self.i < len(self.t) else 0
        self.i += 1
        return v % n

    def pick(self, seq):
        return seq[self.next(len(seq))]


def _tape(max_size):
    return st.binary(min_size=max_size // 2, max_size=max_size)


KINDS = [(e, b) for e in ENCODINGS for b in (False, True)]
_PIECE_LEN = [1, 2, 3, 1, 2, 4, 6, 0]
_alpha_memo: dict = {}


def _alphabet(enc, is_bytes):
    key = (enc, is_bytes)
    if key not in _alpha_memo:
        _alpha_memo[key] = [c for c in GT.ALPHABET[enc] if not (is_bytes and enc != "utf-8" and c in GT.DEC)] + [
            "\n", " ", " "]
    return _alpha_memo[key]


def _gen_piece(t, alpha):
    return "".join(t.pick(alpha) for _ in range(t.pick(_PIECE_LEN)))


def _gen_item(t, alpha, depth):
    k = t.next(8) if depth < 3 else t.next(5)
    if k <= 2:
        return _gen_piece(t, alpha)
    if k <= 4:
        return ["T", t.pick(ATTR_POOL), _gen_piece(t, alpha)]
    if k == 5:
        return ["T", t.pick(ATTR_POOL), _gen_item(t, alpha, depth + 1)]
    items = ["L", *(_gen_item(t, alpha, depth + 1) for _ in range(t.next(4)))]
    return items if k == 6 else ["T", t.pick(ATTR_POOL), items]


def _gen_markup(t, alpha, max_items=5):
    if t.next(6) == 5:
        return _gen_item(t, alpha, 0)
    return ["L", *(_gen_item(t, alpha, 1) for _ in range(1 + t.next(max_items)))]


def _edit_markup(t, node, alpha):
    """one edit an application makes to a markup it keeps: -> new JSON tree (`node` itself is not modified)"""
    if isinstance(node, str):
        return _gen_item(t, alpha, 2)
    if node[0] == "T":
        k = t.next(4)
        if k == 0:
            return ["T", t.pick(ATTR_POOL), node[2]]  # other tag, same content
        if k == 1:
            return node[2]  # tag removed
        return ["T", node[1], _edit_markup(t, node[2], alpha)]
    items = list(node[1:])
    k = t.next(7)
    if not items or k == 0:
        items.insert(t.next(len(items) + 1), _gen_item(t, alpha, 2))
    elif k == 1:
        del items[t.next(len(items))]
    elif k == 2:
        i, j = t.next(len(items)), t.next(len(items))
        items[i], items[j] = items[j], items[i]
    elif k == 3:
        # the tags move on by one item (a highlight walking through a menu line), the texts stay
        tags = [it[1] if isinstance(it, list) and it[0] == "T" else Ellipsis for it in items]
        tags = tags[-1:] + tags[:-1]
        items = [(it[2] if isinstance(it, list) and it[0] == "T" else it) for it in items]
        items = [it if tg is Ellipsis else ["T", tg, it] for it, tg in zip(items, tags)]
    else:
        i = t.next(len(items))
        items[i] = _edit_markup(t, items[i], alpha)
    return ["L", *items]


def _build_markup_case(ints):
    t = _Tape(ints)
    enc, is_bytes = t.pick(KINDS)
    wrap, align = t.pick(WRAPS), t.pick(ALIGNS)
    width = 1 + t.next(8) if t.next(4) else 1 + t.next(24)
    nthen = t.pick([0, 0, 0, 1, 1, 2, 3, 0])
    alpha = _alphabet(enc, is_bytes)
    case = {"enc": enc, "bytes": is_bytes, "markup": _gen_markup(t, alpha), "width": width,
            "wrap": wrap, "align": align}
    if nthen:
        then, cur = [], case["markup"]
        for _ in range(nthen):
            how = t.pick(["same", "same", "fresh"])
            cur = _gen_markup(t, alpha, 3) if t.next(4) == 0 else _edit_markup(t, cur, alpha)
            then.append([how, cur])
        case["then"] = then
    return case


def _markup_case_strategy():
    return _tape(100).map(_build_markup_case)


def _gen_pairs(t):
    return [[t.pick(ATTR_POOL), t.pick(_MAP_VALS)] for _ in range(t.next(5))]


def _build_clip_case(ints):
    t = _Tape(ints)
    enc, is_bytes = t.pick(KINDS)
    wrap, align = t.pick(WRAPS), t.pick(ALIGNS)
    width = 1 + t.next(8) if t.next(4) else 1 + t.next(24)
    via = t.pick(["ops", "ops", "content", "overlay", "padclip"])
    case = {"enc": enc, "bytes": is_bytes, "markup": _gen_markup(t, _alphabet(enc, is_bytes), 4), "width": width,
            "wrap": wrap, "align": align, "via": via}
    if via == "ops":
        ops = []
        for _ in range(1 + t.next(4)):
            k = t.next(6)
            if k <= 2:
                ops.append(["lr", t.next(12) - 9, t.next(12) - 9])  # -9..2: mostly trims, some pads
            elif k == 3:
                ops.append(["tb", t.next(6) - 3, t.next(6) - 3])
            elif k == 4:
                ops.append(["map", _gen_pairs(t)])
            else:
                ops.append(["fill", t.pick(_MAP_VALS)])
        case["ops"] = ops
    elif via == "padclip":
        case["cols"] = 1 + t.next(12)
        case["palign"] = t.pick(["left", "right"])
    else:
        case["win"] = [t.next(24), t.next(4), t.next(24), t.next(4)]
        case["map"] = _gen_pairs(t) if t.next(3) == 0 else None
    return case


def _clip_case_strategy():
    return _tape(90).map(_build_clip_case)


_MAP_VALS = MAP_TARGETS + ATTR_POOL[1:4]


def _gen_dict(t):
    return ["dict", [[t.pick(ATTR_POOL), t.pick(_MAP_VALS)] for _ in range(t.next(5))]]


def _gen_map(t, child):
    if t.next(3) == 2:
        return ["map", "AttrWrap", ["one", t.pick(_MAP_VALS)], ["one", t.pick(_MAP_VALS)] if t.next(2) else None, child]
    amap = _gen_dict(t) if t.next(3) else ["one", t.pick(_MAP_VALS)]
    f = t.next(4)
    fmap = None if f == 0 else ["one", t.pick(_MAP_VALS)] if f == 3 else _gen_dict(t)
    return ["map", "AttrMap", amap, fmap, child]


def _gen_chain(t, child, max_n):
    for _ in range(t.next(max_n + 1)):
        child = _gen_map(t, child)
    return child


def _gen_leaf(t, alpha, max_maps):
    text = ["text", _gen_markup(t, alpha, 3), t.pick(ALIGNS), t.pick(WRAPS)]
    return _gen_chain(t, text, max_maps)


def _gen_container(t, alpha, level):
    n = 1 + t.next(3)
    children = []
    for _ in range(n):
        if level > 1 and t.next(3) == 0:
            children.append(_gen_chain(t, _gen_container(t, alpha, level - 1), 2))
        else:
            children.append(_gen_leaf(t, alpha, 2))
    if t.next(2):
        return ["pile", children, t.next(6)]
    return ["cols", children, t.next(6), t.next(3)]


def _gen_canvas_op(t):
    if t.next(2):
        return ["fill", t.pick(_MAP_VALS)]
    return ["apply", [[t.pick(ATTR_POOL), t.pick(_MAP_VALS)] for _ in range(t.next(5))]]


def _build_maps_case(ints):
    t = _Tape(ints)
    enc, is_bytes = t.pick(KINDS)
    focus = bool(t.next(2))
    alpha = _alphabet(enc, is_bytes)
    shape = t.next(5)
    if shape <= 1:
        tree = _gen_leaf(t, alpha, 4)
    else:
        tree = _gen_chain(t, _gen_container(t, alpha, 1 if shape <= 3 else 2), 2)
    width = _min_width(tree) + t.next(15)
    ops = [_gen_canvas_op(t) for _ in range(t.pick([0, 0, 1, 2, 3, 4]))]
    return {"enc": enc, "bytes": is_bytes, "tree": tree, "width": width, "focus": focus, "ops": ops}


def _maps_case_strategy():
    return _tape(160).map(_build_maps_case)


def maps_nontrivial(case):
    return _map_depth(case["tree"]) + len(case.get("ops", [])) >= 2 and _map_depth(case["tree"]) >= 1


def maps_classes(case):
    tree = case["tree"]
    out = [f"maps:focus:{bool(case['focus'])}", f"maps:nested:{min(_map_depth(tree), 5)}"]
    top = tree
    while top[0] == "map":
        top = top[4]
    out.append(f"maps:base:{top[0]}")
    if case.get("ops"):
        out.append("maps:canvas-steps")
    s = repr(tree)
    if "'AttrWrap'" in s:
        out.append("maps:AttrWrap")
    return out


# ---- sgr ---------------------------------------------------------------------------------

HIGH_SAMPLE = ["h0", "h7", "h8", "h15", "h16", "h20", "h87", "h88", "h200", "h255", "#000", "#f00", "#fa8", "#068",
               "#8cf", "#fff", "g0", "g50", "g100", "g#80", "#123456", "#ff8000", "#000000"]
# Palette entry names come from the whole domain of attribute names (register_palette_entry: "name: str | None";
# the quantifier: "arbitrary (hashable) attribute names"): ordinary strings, the name None (the entry every Screen
# starts with, and that an application re-registers to colour unmarked text, padding and fill), and the
# falsy-but-valid / non-str names '', 0 and a tuple.  Cells pick from the same pool, so each of them also occurs as
# an *undefined* name.
_STR_NAMES = ["n1", "n2", "n3", "body", "hl"]
ODD_NAMES = [None, "", 0, ["t", "n1", 1]]
NAMES = _STR_NAMES + ODD_NAMES
ALIAS_NAMES = NAMES + ["al1", "al2"]


def _fg_string(colour, settings, colour_first=True):
    parts = ([colour] if colour is not None else []) + list(settings)
    if not colour_first and colour is not None:
        parts = list(settings) + [colour]
    return ",".join(parts) if parts else "default"


def _gen_settings(t):
    n = t.pick([0, 1, 0, 2, 3])
    out = []
    for _ in range(n):
        s = t.pick(SETTINGS)
        if s not in out:
            out.append(s)
    return out


def _gen_fg(t, colours):
    colour = t.pick(colours)
    sett = _gen_settings(t)
    first = t.next(3) != 2
    if colour is None and not sett:
        # "If the color is not given then 'default' will be assumed": the empty string is the other spelling of
        # 'default' (falsy but valid -- not the same as None in the *_high slots, which means "use the basic value")
        return t.pick(_DEFAULT_SPELLINGS)
    return _fg_string(colour, sett, first)


_DEFAULT_SPELLINGS = ["default", ""]
_BASIC_FG = [None, "default", *BASIC]
_BASIC_BG = ["default", "", *BASIC]
_HIGH = HIGH_SAMPLE + list(BASIC[:4]) + ["default", None]  # None: no colour part (settings only, or '' / 'default')
_HIGH_BG = HIGH_SAMPLE + list(BASIC[:4]) + ["default", ""]


def _gen_high(t, pool=_HIGH):
    k = t.next(4)
    if k == 0:
        return f"h{t.next(256)}"
    return t.pick(pool)


def _gen_palette(t, max_entries):
    out, defined = [], []
    for _ in range(t.next(max_entries + 1)):
        name = t.pick(NAMES)
        arity = t.pick([6, 3, 4, 6])
        fg = _gen_fg(t, _BASIC_FG)
        bg = t.pick(_BASIC_BG)
        mono = None if t.next(2) == 0 else (",".join(_gen_settings(t)) or t.pick(_DEFAULT_SPELLINGS))
        fgh = bgh = None
        if arity == 6:
            if t.next(4):
                colour, sett = _gen_high(t), _gen_settings(t)
                fgh = _fg_string(colour, sett, t.next(3) != 2)
                if colour is None and not sett:
                    fgh = t.pick(_DEFAULT_SPELLINGS)
            if t.next(4):
                bgh = _gen_high(t, _HIGH_BG)
        out.append(["e", name, arity, fg, bg, mono, fgh, bgh])
        defined.append(name)
        if t.next(4) == 0:
            out.append(["alias", t.pick(ALIAS_NAMES), t.pick(defined)])
            defined.append(out[-1][1])
    return out


def _gen_props(t):
    return [t.pick(DEPTHS), bool(t.next(2))]


_SPEC_CHOICES = {
    16: (_BASIC_FG, _BASIC_BG),
    88: (["h9", "h80", "#f00", "#8cf", "light blue", None], ["default", "h17", "#008", "dark red", ""]),
    256: (["h9", "h100", "#f00", "#fa8", "g50", "light blue", None], ["default", "h17", "#068", "dark red", ""]),
    T24: (["#123456", "#f00", "h100", "white", None], ["default", "#ff8000", "h17", "light gray", ""]),
}


def _gen_cell(t):
    k = t.next(8)
    if k <= 3:
        return t.pick(ALIAS_NAMES)
    if k == 4:
        return None
    if k == 5:
        return "undefined"
    depth = t.pick([16, 256, T24, 88])
    fgs, bgs = _SPEC_CHOICES[depth]
    return ["spec", _gen_fg(t, fgs), t.pick(bgs), depth]


def _build_sgr_case(ints):
    t = _Tape(ints)
    enc = t.pick(["utf-8", "utf-8", "utf-8", "euc-jp", "iso8859-1"])
    pre = _gen_props(t) if t.next(3) == 0 else None
    palette = _gen_palette(t, 5)
    post = _gen_props(t) if t.next(3) else None
    late = _gen_palette(t, 2) if t.next(3) == 0 else []
    late_same = bool(late) and t.next(2) == 1
    more = [_gen_props(t) for _ in range(t.pick([0, 0, 1, 2]))]
    cols = 1 + t.next(6)
    rows = 1 + t.next(2)
    cells = [_gen_cell(t) for _ in range(cols * rows)]
    glyphs = "".join(t.pick("xxxy #") for _ in range(cols * rows))
    return {"enc": enc, "pre": pre, "palette": palette, "post": post, "late": late, "late_same": late_same,
            "more": more, "cols": cols, "cells": cells, "glyphs": glyphs}


def _sgr_case_strategy():
    return _tape(200).map(_build_sgr_case)


def _forms(case):
    forms = set()
    for e in case["palette"] + case.get("late", []):
        if e[0] == "alias":
            forms.add("alias")
        else:
            forms.add({3: "basic", 4: "mono", 6: "high"}[e[2]])
    return forms


def _defined_names(case):
    return {_nkey(e[1]) for e in case["palette"] + case.get("late", [])}


def sgr_nontrivial(case):
    names = _defined_names(case)
    return len(_forms(case)) >= 2 and any(not _is_spec(c) and _nkey(c) in names for c in case["cells"])


def sgr_classes(case):
    out = [f"sgr:form:{f}" for f in sorted(_forms(case))]
    depth = 16
    for step in [case.get("pre"), case.get("post"), *case.get("more", [])]:
        if step is not None:
            depth = step[0]
    out.append(f"sgr:final-depth:{depth}")
    if case.get("more"):
        out.append("sgr:depth-switch-between-draws")
    if case.get("late"):
        out.append("sgr:registered-after-start")
    if any(_is_spec(c) for c in case["cells"]):
        out.append("sgr:AttrSpec-cell")
    names = _defined_names(case)
    shown = {_nkey(c) for c in case["cells"] if not _is_spec(c)}
    if any(c not in names for c in shown):
        out.append("sgr:undefined-name")
    for label, key in (("None", None), ("empty-string", ""), ("int", 0), ("tuple", ("n1", 1))):
        if key in names and key in shown:
            out.append(f"sgr:entry-named-{label}-displayed")
        elif key in shown and key is not None:
            out.append(f"sgr:undefined-{label}-name")
    return out


_SUBSETS = [tuple(s for k, s in enumerate(SETTINGS) if m >> k & 1) for m in range(64)]


def sweep_cases(ctx):
    """one case = one palette of <= 17 entries drawn as one row"""
    full = ctx.tier == "thorough"
    colours = [None, *BASIC]
    k = 0
    # 17 x 17 default/basic pairs
    for depth in (16, 88, 256, T24):
        for bib in (False, True):
            for fi, fg in enumerate(colours):
                for rot in range(8 if not full else 64):
                    k += 1
                    sett = _SUBSETS[(rot * 9 + fi * 5 + k) % 64] if not full else _SUBSETS[rot]
                    pal, cells = [], []
                    for bi, bg in enumerate(colours):
                        name = f"p{bi}"
                        pal.append(["e", name, 3, _fg_string(fg, sett, (k + bi) % 3 != 0), bg or "default", None, None, None])
                        cells.append(name)
                    yield {"enc": "utf-8", "pre": None, "palette": pal, "post": [depth, bib], "late": [], "more": [],
                           "cols": len(cells), "cells": cells, "glyphs": "x" * len(cells)}
    # all 64 setting subsets: on 'default' at every depth, and in the mono slot at depth 1
    for depth in DEPTHS:
        for base in range(0, 64, 16):
            pal, cells = [], []
            for m in range(base, base + 16):
                sett = _SUBSETS[m]
                s = ",".join(sett) if sett else "default"
                pal.append(["e", f"s{m}", 6, s, "default", s, s, "default"])
                cells.append(f"s{m}")
            yield {"enc": "utf-8", "pre": [depth, False], "palette": pal, "post": None, "late": [], "more": [],
                   "cols": 16, "cells": cells, "glyphs": "x" * 16}
    # all high colours by number, as foreground and as background, via the palette and as AttrSpec cells
    for depth in (88, 256, T24):
        top = 88 if depth == 88 else 256
        for base in range(0, top, 16):
            for side in ("fg", "bg"):
                for via in ("palette", "spec"):
                    pal, cells = [], []
                    for n in range(base, min(base + 16, top)):
                        fgh, bgh = (f"h{n}", "default") if side == "fg" else ("default", f"h{n}")
                        if via == "palette":
                            pal.append(["e", f"h{n}", 6, "light red", "dark blue", None, fgh, bgh])
                            cells.append(f"h{n}")
                        else:
                            cells.append(["spec", fgh, bgh, depth])
                    yield {"enc": "utf-8", "pre": None, "palette": pal, "post": [depth, bool(base & 16)], "late": [],
                           "more": [], "cols": len(cells), "cells": cells, "glyphs": "x" * len(cells)}
    # every slot of a 6-field entry in each of its spellings of "nothing given" -- None (mono / high slots: "same as
    # 'default'" / "use the basic value"), the empty string and 'default' (both: the terminal's default) -- against
    # a value that differs from the default, in every combination of the five slots, at every depth
    combos = list(itertools.product(
        ["", "default", "yellow", "underline", "dark green,bold"],      # foreground
        ["", "default", "dark red"],                                     # background
        [None, "", "bold"],                                              # mono
        [None, "", "default", "#f00", "strikethrough"],                  # foreground_high
        [None, "", "default", "#006"],                                   # background_high
    ))
    for depth in DEPTHS:
        for base in range(0, len(combos), 16):
            pal, cells = [], []
            for n, (fg, bg, mono, fgh, bgh) in enumerate(combos[base:base + 16]):
                pal.append(["e", f"v{base + n}", 6, fg, bg, mono, fgh, bgh])
                cells.append(f"v{base + n}")
            yield {"enc": "utf-8", "pre": None, "palette": pal, "post": [depth, bool(base & 16)], "late": [],
                   "more": [], "cols": len(cells), "cells": cells, "glyphs": "x" * len(cells)}
    # every kind of entry name -- None (the entry a Screen starts with; re-registering it is how unmarked text,
    # padding and fill get colours), '', 0, a tuple, an ordinary string -- x every depth x every entry form
    # (3 / 4 / 6 fields; the name an alias of another entry; another name an alias of it) x registered before
    # start() / after start() / both (redefinition); shown on glyph and on blank cells next to a cell of another
    # entry, a None cell and an undefined name, plus a second row that is entirely blank in that name
    hi = ["light red,bold", "dark blue", "underline", "#f00,strikethrough", "#006"]
    lo = ["dark green", "brown", "standout", "h20", "h7"]
    for depth in DEPTHS:
        for ni, name in enumerate([*ODD_NAMES, "n1"]):
            other = "n2"
            forms = [[["e", name, a, *hi]] for a in (3, 4, 6)]
            forms.append([["e", other, 6, *lo], ["alias", name, other]])
            forms.append([["e", name, 6, *hi], ["alias", other, name]])
            for fi, form in enumerate(forms):
                for when in ("before", "late", "both"):
                    rest = [] if any(e[1] == other for e in form) else [["e", other, 6, *lo]]
                    pal = rest + (form if when == "before" else
                                  [["e", name, 4, "yellow", "dark magenta", "bold", None, None]] if when == "both" else [])
                    late = [] if when == "before" else form
                    cells = [name, None, "undefined", other, name, None, "undefined"] + [name] * 7
                    yield {"enc": "utf-8", "pre": None, "palette": pal, "post": [depth, bool((ni + fi) & 1)],
                           "late": late, "late_same": False, "more": [], "cols": 7, "cells": cells,
                           "glyphs": "xxxx   " + " " * 7}
    # '#rgb' cube shortcuts
    step = 1 if full else 5
    vals = list(range(0, 4096, step))
    for depth in (256, 88, T24):
        for base in range(0, len(vals), 16):
            chunk = vals[base:base + 16]
            pal, cells = [], []
            for v in chunk:
                tok = f"#{v:03x}"
                pal.append(["e", tok, 6, "default", "default", None, tok if base % 32 == 0 else "default",
                            "default" if base % 32 == 0 else tok])
                cells.append(tok)
            yield {"enc": "utf-8", "pre": [depth, False], "palette": pal, "post": None, "late": [], "more": [],
                   "cols": len(cells), "cells": cells, "glyphs": "x" * len(cells)}


def shard(ctx):
    STATS.clear()
    maxlen = ctx.scale(4, 5)
    full = ctx.tier == "thorough"
    # cheapest first: if the wall-clock budget runs out on a loaded machine the sweeps have been done
    ctx.sweep("sgr_sweep", sweep_cases(ctx), nontrivial=None, classify=None,
              exhaustive_name="17x17 basic pairs x depths x bright_is_bold; 64 setting subsets; h0..h255; slot spellings; "
                              "entry names None / '' / 0 / tuple / str x depth x form x registration time; #rgb")
    if ctx.failure is None:
        ctx.sweep("markup_short", short_cases(ctx, maxlen, full), nontrivial=markup_nontrivial, classify=None,
                  exhaustive_name=f"per-character tags: strings of length <= {maxlen} over {6 if full else 5} letters x "
                                  f"width 1..{6 if full else 4} x wrap x align x str/bytes x 3 encodings",
                  stride=False)
    if ctx.failure is None:
        sl = ctx.scale(3, 4)
        ctx.sweep("set_text_short", set_text_cases(ctx, sl, full), nontrivial=None, classify=None,
                  exhaustive_name=f"set_text() with the same list object after every single in-place edit (item "
                                  f"retagged / untagged / text replaced / deleted / inserted, tags or items moved on) "
                                  f"of per-character-tagged strings of length <= {sl} over {6 if full else 5} letters, "
                                  f"list at top level / inside a tag tuple / inside an outer list, 3 encodings",
                  stride=False)
    if ctx.failure is None:
        cl = 3
        ctx.sweep("clip_short", clip_short_cases(ctx, cl, full), nontrivial=clip_nontrivial, classify=None,
                  exhaustive_name=f"clipped views: per-character tags, strings of length <= {cl} over "
                                  f"{6 if full else 5} letters x width 1..{5 if full else 4} x every column window "
                                  f"(content / Overlay), every trim-or-pad-by-one pair (pad_trim_left_right), every "
                                  f"Padding clip width",
                  stride=False)
    if ctx.failure is None:
        ctx.given("clip", _clip_case_strategy(), ctx.scale(1500, 30000), nontrivial=clip_nontrivial,
                  classify=clip_classes)
    if ctx.failure is None:
        ctx.given("maps", _maps_case_strategy(), ctx.scale(1200, 30000), nontrivial=maps_nontrivial, classify=maps_classes)
    if ctx.failure is None:
        ctx.given("sgr", _sgr_case_strategy(), ctx.scale(800, 20000), nontrivial=sgr_nontrivial, classify=sgr_classes)
    if ctx.failure is None:
        ctx.given("markup", _markup_case_strategy(), ctx.scale(2500, 50000), nontrivial=markup_nontrivial,
                  classify=markup_classes)
    for k, v in sorted(STATS.items()):
        ctx.count(k, v)


# ---------------------------------------------------------------------------------------------
# known findings (active only when listed in known_findings.d/C17.json / known_findings.json with status "known")

import re as _re


def _alias_unpropagated(case, draw, name):
    """Replays the order of calls of the case: is `name` an alias registered after the last
    set_terminal_properties() call that actually changed a property (those rebuild the display's escape table
    from the palette)?  has_underline is never changed by the cases."""
    cur = (16, False)
    pending = set()

    def props(step):
        nonlocal cur
        if step is not None and tuple(step) != cur:
            cur = tuple(step)
            pending.clear()

    def reg(items):
        for e in items:
            if e[0] == "alias":
                pending.add(_nkey(e[1]))
            else:
                pending.discard(_nkey(e[1]))

    props(case.get("pre"))
    reg(case["palette"])
    props(case.get("post"))
    reg(case.get("late", []))
    for step in case.get("more", [])[:draw]:
        props(step)
    return name in pending


def _known_alias_not_signalled(sub, case, v):
    """BaseScreen.register_palette copies an alias into self._palette without emitting UPDATE_PALETTE_ENTRY, so the
    raw display's escape table never learns the name (it shows default/default, or what the name meant before)
    until some later set_terminal_properties() change rebuilds the table."""
    if v.clause != "sgr-cell:alias" or "[alias shown as the name's previous definition]" not in v.message:
        return False
    m = _re.match(r"\[\S+ depth \d+ bright_is_bold \w+ draw (\d+)\] cell (\d+) ", v.message)
    if not m:
        return False
    name = case["cells"][int(m.group(2))]
    return not _is_spec(name) and _alias_unpropagated(case, int(m.group(1)), _nkey(name))


def _known_large_h_not_first(sub, case, v):
    """register_palette_entry's large_h() only recognises 'hN' when the high-colour foreground string *starts* with
    it; with the settings first ('bold,h200') the 88-colour AttrSpec is built from 'h200' and raises."""
    if v.clause != "exception:AttrSpecError@display/common.py:__set_foreground":
        return False
    for e in case["palette"] + case.get("late", []):
        if e[0] == "e" and e[2] == 6 and e[6] is not None:
            parts = [p.strip(" ") for p in e[6].split(",")]
            for k, part in enumerate(parts):
                n = _h_number(part)
                if n is not None and n > 87 and k > 0 and f"'{part}'" in v.message:
                    return True
    return False


def _known_rgb_of_245(sub, case, v):
    """Same root cause as C18-gray-245-wrong-step: urwid's 256-colour table has 0x84 for colour 245 where xterm has
    0x8a, so 'h245' (and grays mapped to it) at 2**24 colours is sent as 38/48;2;132;132;132."""
    return v.clause == "sgr-cell:rgb-of-245" and "(132, 132, 132)" in v.message


KNOWN = {
    "C17-palette-alias-not-signalled": _known_alias_not_signalled,
    "C17-high-colour-number-after-settings-88": _known_large_h_not_first,
    "C17-rgb-of-colour-245": _known_rgb_of_245,
}
