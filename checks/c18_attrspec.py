"""C18 -- colour specifications round-trip and degrade to the nearest colour.

Code under test: ``urwid.display.common.AttrSpec``.

Every case is ``{"fg": str, "bg": str, "colors": int}``.  What the case must do is decided by an
*independent* reading of the documented grammar (``expect``), not by the library's parsers:

* ``valid``   -- every part is a documented token at a sufficient depth: must be accepted;
* ``reject``  -- unknown alphabetic name, duplicated setting, two colours in one foreground, or a
                 colour beyond the declared depth: must raise ``AttrSpecError``;
* ``lenient`` -- anything else (the text is silent): ``AttrSpecError`` or accepted; if accepted the
                 same round-trip clauses apply.  No other exception type is ever acceptable.

Sub-checks (same case domain, separate so that a known finding in one does not mask the other):

* ``rt``       round trip ``AttrSpec(a.foreground, a.background, a.colors) == a``; describe/parse
               idempotent; observed-equal specs hash equal; ``a.colors`` is the smallest depth d with
               ``AttrSpec(a.foreground, a.background, d) == a`` under the library's own ``==``
               (weaker reading: 88-colour mode is sticky by design and is not called a violation);
* ``palette``  ``get_rgb_values()`` against xterm tables written out here independently; '#rgb' at
               88/256 reports cube levels that minimise the distance to 0xN -> 0xNN per component;
               'gN'/'g#XX' report a gray-ramp value (ramp + cube black/white) that minimises the
               distance to the requested gray (weaker reading: cube values are compared with cube
               entries and gray values with gray-scale entries only, ties either way; for 'gN' the
               index may minimise the distance to floor, ceil or the exact value of N*2.55);
               '#rrggbb' at 2**24 is preserved exactly; at 88/256 it is only required to be a palette
               entry, and to be preserved when every component is an exact cube level (nothing is
               asserted about "nearest" for 24-bit input at 88/256, nor for '#rgb'/'g' at 2**24);
* ``true``     both of the above in one evaluation, for the #rrggbb sweep (24-bit values);
* ``fuzz``     both of the above for Hypothesis strings around the grammar.
"""
from __future__ import annotations

import itertools
import re
import unicodedata
from fractions import Fraction

from hypothesis import strategies as st

from urwid.display.common import AttrSpec, AttrSpecError
from vlib.runner import Violation

PROPERTY = "C18"
LEVEL = "exploration"
RULE = (
    "Exhaustive sweeps of {fg,bg,colors} cases through sub-checks rt and palette: (fg) every colour token "
    "[''/default, 16 basic names, h0..h255, #000..#fff, g0..g100, g#00..g#ff] as foreground and (bg) as "
    "background at depths 1,16,88,256,2**24; (settings) every subset and order of the six settings (1957) "
    "alone and with a representative colour at every position (quick: 2 of 8 colours per position, "
    "rotating, rt only; thorough: all 8, rt+palette), 4 separator spellings and 8 backgrounds rotating, "
    "x 5 depths; (pairs) 18x18 basic/default pairs, every token against basic/default partners on either "
    "side (quick 2, thorough 4) and permutation pairings token x token with rotating settings (quick 2, "
    "thorough 3), x 5 depths; (reject) enumerated unknown names, duplicated settings, two colours, "
    "h256.. numbers; (true) #rrggbb as fg or bg with rotating partners/settings/hex case: quick = every "
    "83rd value (offset by seed) + a 32^3 boundary lattice + 256 grays, each at one of 2**24/256/88 in "
    "rotation; thorough = all 2**24 values at all three depths; (fuzz) Hypothesis: from_regex "
    "near-grammar tokens, mutated valid tokens, random text, alphabetic names, duplicated settings, "
    "several colours, odd separators.  Non-trivial: the case names a high/gray/true colour (contains "
    "'#' or an h<digit>/g<digit> token); enumerated cases are distinct by construction."
)
ASSUMPTIONS = [
    "xterm tables are written out in this module from xterm's 256colres.h / 88colres.h / XTerm-col.ad: "
    "cube 0,95,135,175,215,255; grays 8+10i; 88-colour cube 0,139,205,255; 88-colour grays "
    "46,92,115,139,162,185,208,231; the 16 basic colours as in XTerm-col.ad",
    "'#rgb' digits denote 0xNN (HTML short form, as the AttrSpec docstring says); 'gN' denotes N*255/100",
    "the documented grammar is the AttrSpec.__init__ docstring: case-sensitive names, comma-separated "
    "foreground with optional ASCII spaces around the parts, background a single colour",
    "hex digits may be upper or lower case",
    "CPython hash()/== of AttrSpec objects are the library's __hash__/__eq__",
]

T = 2**24
DEPTHS = [1, 16, 88, 256, T]
SETTINGS = ["bold", "italics", "underline", "blink", "standout", "strikethrough"]
BASIC = [
    "black", "dark red", "dark green", "brown", "dark blue", "dark magenta", "dark cyan", "light gray",
    "dark gray", "light red", "light green", "yellow", "light blue", "light magenta", "light cyan", "white",
]
_BASIC_INDEX = {n: i for i, n in enumerate(BASIC)}
_KNOWN_NAMES = {*SETTINGS, *BASIC, "default"}

# ---------------------------------------------------------------------------------------------
# independent xterm tables

BASIC_RGB = [
    (0, 0, 0), (205, 0, 0), (0, 205, 0), (205, 205, 0), (0, 0, 238), (205, 0, 205), (0, 205, 205),
    (229, 229, 229), (127, 127, 127), (255, 0, 0), (0, 255, 0), (255, 255, 0), (92, 92, 255),
    (255, 0, 255), (0, 255, 255), (255, 255, 255),
]
CUBE = {256: [0, 95, 135, 175, 215, 255], 88: [0, 139, 205, 255]}
GRAYS = {256: [8 + 10 * i for i in range(24)], 88: [46, 92, 115, 139, 162, 185, 208, 231]}
TABLE = {
    d: BASIC_RGB + [(r, g, b) for r in CUBE[d] for g in CUBE[d] for b in CUBE[d]] + [(v, v, v) for v in GRAYS[d]]
    for d in (256, 88)
}
assert len(TABLE[256]) == 256 and len(TABLE[88]) == 88
TABLE_SET = {d: set(TABLE[d]) for d in TABLE}
GRAY_CANDIDATES = {d: [0, *GRAYS[d], 255] for d in GRAYS}  # cube black, the ramp, cube white

# ---------------------------------------------------------------------------------------------
# independent grammar

_RE_H = re.compile(r"h(0|[1-9][0-9]{0,5})\Z", re.ASCII)
_RE_CUBE = re.compile(r"#([0-9a-fA-F])([0-9a-fA-F])([0-9a-fA-F])\Z", re.ASCII)
_RE_TRUE = re.compile(r"#([0-9a-fA-F]{2})([0-9a-fA-F]{2})([0-9a-fA-F]{2})\Z", re.ASCII)
_RE_GP = re.compile(r"g(0|[1-9][0-9]?|100)\Z", re.ASCII)
_RE_GH = re.compile(r"g#([0-9a-fA-F]{2})\Z", re.ASCII)


def colour_class(tok: str):
    """Documented colour token -> class tuple; None if it is not a documented colour token."""
    if tok == "default":
        return ("default",)
    if tok in _BASIC_INDEX:
        return ("basic", _BASIC_INDEX[tok])
    if not tok or tok[0] not in "hg#":
        return None
    m = _RE_H.match(tok)
    if m:
        return ("h", int(m.group(1)))
    m = _RE_CUBE.match(tok)
    if m:
        return ("cube", *(int(x, 16) for x in m.groups()))
    m = _RE_TRUE.match(tok)
    if m:
        return ("true", *(int(x, 16) for x in m.groups()))
    m = _RE_GP.match(tok)
    if m:
        return ("gpct", int(m.group(1)))
    m = _RE_GH.match(tok)
    if m:
        return ("ghex", int(m.group(1), 16))
    return None


def required_depth(cls):
    """smallest documented depth at which the colour class may be used; None: no such depth <= 256
    (a colour number beyond every indexed palette)."""
    k = cls[0]
    if k == "default":
        return 1
    if k == "basic":
        return 16
    if k == "h":
        if cls[1] < 88:
            return 88
        if cls[1] < 256:
            return 256
        return None
    return 88


def _alpha_unknown(tok: str) -> bool:
    """letters and spaces only, and not a (case/space variant of a) documented name"""
    if not tok or not all(c == " " or c.isalpha() for c in tok) or tok.isspace():
        return False
    return " ".join(tok.casefold().split()) not in _KNOWN_NAMES


def expect(fg: str, bg: str, colors: int):
    """-> (kind, info): kind in valid/reject/lenient.  info for valid:
    {"fg": class, "bg": class, "settings": [...]}; for reject: the reason."""
    reject = None
    lenient = False
    settings: list[str] = []
    fg_cls = ("default",)
    if fg != "":
        ncolours = 0
        for raw in fg.split(","):
            part = raw.strip(" ")
            if part in SETTINGS:
                if part in settings:
                    reject = reject or "duplicated-setting"
                settings.append(part)
                continue
            cls = colour_class(part)
            if cls is not None:
                ncolours += 1
                if ncolours > 1:
                    reject = reject or "two-colours"
                fg_cls = cls
                req = required_depth(cls)
                if req is None:
                    if colors <= 256:
                        reject = reject or "over-depth"
                    else:
                        lenient = True
                elif req > colors:
                    reject = reject or "over-depth"
            elif _alpha_unknown(part):
                reject = reject or "unknown-name"
            else:
                lenient = True
    if bg == "":
        bg_cls = ("default",)
    else:
        bg_cls = colour_class(bg)
        if bg_cls is None:
            if _alpha_unknown(bg):
                reject = reject or "unknown-name"
            else:
                lenient = True
        else:
            req = required_depth(bg_cls)
            if req is None:
                if colors <= 256:
                    reject = reject or "over-depth"
                else:
                    lenient = True
            elif req > colors:
                reject = reject or "over-depth"
    if reject:
        return "reject", reject
    if lenient:
        return "lenient", None
    return "valid", {"fg": fg_cls, "bg": bg_cls, "settings": settings}


# ---------------------------------------------------------------------------------------------
# sub-checks


def _construct(case):
    fg, bg, colors = case["fg"], case["bg"], case["colors"]
    kind, info = expect(fg, bg, colors)
    intent = case.get("intent")
    if intent is not None and intent != kind:
        raise AssertionError(f"harness: case {case!r} was generated as {intent} but classified {kind}")
    try:
        a = AttrSpec(fg, bg, colors)
    except AttrSpecError as e:
        if kind == "valid":
            raise Violation("valid-rejected", f"AttrSpec({fg!r}, {bg!r}, {colors}) is documented but raised {e!r}") from e
        return None, kind, info
    if kind == "reject":
        raise Violation(
            f"must-reject-accepted[{info}]",
            f"AttrSpec({fg!r}, {bg!r}, {colors}) ({info}) was accepted as {a!r}",
        )
    return a, kind, info


def _eq_hash(x, y, what):
    """x == y observed -> hashes must agree.  Returns whether they are equal."""
    eq = x == y
    if eq != (not (x != y)):
        raise Violation("eq-ne-consistent", f"{what}: == gives {eq}, != gives {x != y}")
    if eq and hash(x) != hash(y):
        raise Violation("hash-equal", f"{what}: {x!r} == {y!r} but hashes differ")
    return eq


def check_rt(case):
    a, kind, info = _construct(case)
    if a is not None:
        _rt(case, a, kind, info)


def _rt(case, a, kind, info):
    fg, bg, colors = case["fg"], case["bg"], case["colors"]
    src = f"AttrSpec({fg!r}, {bg!r}, {colors})"
    f, b, c = a.foreground, a.background, a.colors
    if c not in DEPTHS:
        raise Violation("colors-domain", f"{src}.colors == {c!r}")
    try:
        r = AttrSpec(f, b, c)
    except AttrSpecError as e:
        raise Violation("round-trip", f"{src} describes itself as ({f!r}, {b!r}, {c}) which is rejected: {e}") from e
    if not _eq_hash(r, a, "round trip"):
        raise Violation(
            "round-trip",
            f"{src} describes itself as ({f!r}, {b!r}, {c}) but AttrSpec({f!r}, {b!r}, {c}) != it "
            f"(rebuilt describes itself as ({r.foreground!r}, {r.background!r}, {r.colors}))",
        )
    if (r.foreground, r.background, r.colors) != (f, b, c):
        raise Violation(
            "idempotent",
            f"{src}: normal form ({f!r}, {b!r}, {c}) re-describes as ({r.foreground!r}, {r.background!r}, {r.colors})",
        )
    if case.get("lite"):
        return  # 7 of 8 cases of the 24-bit sweep skip the four extra constructions below
    # smallest depth that expresses the specification, under the library's own equality
    expressing = []
    for d in DEPTHS:
        if d == c:
            expressing.append(d)  # shown above
            continue
        try:
            x = AttrSpec(f, b, d)
        except AttrSpecError:
            continue
        if _eq_hash(x, a, f"depth {d}"):
            expressing.append(d)
    if c != min(expressing):
        raise Violation(
            "minimal-depth",
            f"{src}.colors == {c} but AttrSpec({f!r}, {b!r}, {min(expressing)}) is an equal specification",
        )
    if kind == "valid" and len(info["settings"]) > 1:
        # another order of the same settings: if the library calls them equal the hashes must agree
        cls_tok = [p.strip(" ") for p in fg.split(",") if p.strip(" ") not in SETTINGS]
        other = ",".join(cls_tok + sorted(info["settings"]))
        _eq_hash(AttrSpec(other, bg, colors), a, "reordered settings")


def _is_min(v, candidates, target) -> bool:
    return abs(v - target) == min(abs(x - target) for x in candidates)


def _side_palette(side, cls, rgb, depth, src):
    """depth: the depth the spec was built with (88, 256 or T); cls: documented class of this side."""
    k = cls[0]
    if k == "default":
        if rgb != (None, None, None):
            raise Violation(f"rgb-default:{side}", f"{src}: {side} is default but RGB is {rgb}")
        return
    if any(not isinstance(x, int) or isinstance(x, bool) or not 0 <= x <= 255 for x in rgb):
        raise Violation(f"rgb-shape:{side}", f"{src}: {side} RGB is {rgb}")
    if k == "basic":
        if rgb != BASIC_RGB[cls[1]]:
            raise Violation(
                f"rgb-table[basic]:{side}", f"{src}: {side} {BASIC[cls[1]]!r} reports RGB {rgb}, xterm has {BASIC_RGB[cls[1]]}"
            )
        return
    if k == "h":
        want = TABLE[88 if depth == 88 else 256][cls[1]]
        if rgb != want:
            raise Violation(f"rgb-table[h]:{side}", f"{src}: {side} colour number {cls[1]} reports RGB {rgb}, xterm has {want}")
        return
    if k == "true":
        want = tuple(cls[1:])
        if depth == T:
            if rgb != want:
                raise Violation(f"rgb-table[true]:{side}", f"{src}: {side} reports RGB {rgb}, not {want}")
            return
        if rgb not in TABLE_SET[depth]:
            raise Violation(f"rgb-table[member]:{side}", f"{src}: {side} reports RGB {rgb}, not an entry of the {depth}-colour table")
        if all(x in CUBE[depth] for x in want) and rgb != want:
            raise Violation(f"fixed-point[cube]:{side}", f"{src}: {side} is exactly a cube entry but reports {rgb}")
        return
    if depth == T:
        return  # '#rgb' / gray at 2**24: nothing asserted about which colour (only rgb-vs-description)
    if k == "cube":
        levels = CUBE[depth]
        if any(x not in levels for x in rgb):
            raise Violation(f"rgb-table[cube]:{side}", f"{src}: {side} reports RGB {rgb}, not a {depth}-colour cube entry")
        for comp, digit in zip(rgb, cls[1:]):
            if not _is_min(comp, levels, digit * 17):
                raise Violation(
                    f"nearest[cube]:{side}",
                    f"{src}: {side} component 0x{digit:x}{digit:x}={digit * 17} mapped to level {comp}; levels {levels}",
                )
        return
    # gray
    cands = GRAY_CANDIDATES[depth]
    if not (rgb[0] == rgb[1] == rgb[2] and rgb[0] in cands):
        raise Violation(f"rgb-table[gray]:{side}", f"{src}: {side} reports RGB {rgb}, not a {depth}-colour gray-scale entry {cands}")
    if k == "ghex":
        targets = [cls[1]]
    else:
        exact = Fraction(cls[1] * 255, 100)
        targets = [exact, exact.numerator // exact.denominator, -((-exact.numerator) // exact.denominator)]
    if not any(_is_min(rgb[0], cands, t) for t in targets):
        raise Violation(
            f"nearest[gray]:{side}",
            f"{src}: {side} gray {float(targets[0]):g} mapped to {rgb[0]}; gray scale {cands}",
        )


_RE_DESC_TRUE = re.compile(r"#([0-9a-f]{2})([0-9a-f]{2})([0-9a-f]{2})\Z", re.ASCII)


def check_palette(case):
    a, kind, info = _construct(case)
    if a is not None:
        _palette(case, a, kind, info)


def _palette(case, a, kind, info):
    fg, bg, colors = case["fg"], case["bg"], case["colors"]
    src = f"AttrSpec({fg!r}, {bg!r}, {colors})"
    vals = a.get_rgb_values()
    if not isinstance(vals, tuple) or len(vals) != 6:
        raise Violation("rgb-shape", f"{src}.get_rgb_values() == {vals!r}")
    sides = (("fg", vals[0:3]), ("bg", vals[3:6]))
    if kind == "valid":
        for side, rgb in sides:
            _side_palette(side, info[side], rgb, colors, src)
    else:
        for side, rgb in sides:
            if rgb != (None, None, None) and any(not isinstance(x, int) or not 0 <= x <= 255 for x in rgb):
                raise Violation(f"rgb-shape:{side}", f"{src}: {side} RGB is {rgb}")
    # a side that describes itself as '#rrggbb' must report exactly these components
    for (side, rgb), desc in zip(sides, (a.foreground.split(",")[0], a.background)):
        m = _RE_DESC_TRUE.match(desc)
        if m and rgb != tuple(int(x, 16) for x in m.groups()):
            raise Violation(f"rgb-vs-description:{side}", f"{src}: {side} is described as {desc!r} but reports RGB {rgb}")


def check_fuzz(case):
    a, kind, info = _construct(case)
    if a is not None:
        _rt(case, a, kind, info)
        _palette(case, a, kind, info)


SUBS = {"rt": check_rt, "palette": check_palette, "true": check_fuzz, "fuzz": check_fuzz}

# ---------------------------------------------------------------------------------------------
# enumerations

COLOUR_TOKENS = (
    ["", "default", *BASIC]
    + [f"h{n}" for n in range(256)]
    + [f"#{n:03x}" for n in range(4096)]
    + [f"g{n}" for n in range(101)]
    + [f"g#{n:02x}" for n in range(256)]
)
N_TOK = len(COLOUR_TOKENS)
ORDERED_SUBSETS = [list(p) for k in range(7) for p in itertools.permutations(SETTINGS, k)]
assert len(ORDERED_SUBSETS) == 1957
REP_COLOURS = ["default", "light red", "h42", "h200", "#abc", "g50", "g#9c", "#5f87af"]
REP_BGS = ["", "default", "dark blue", "#fed", "g#12", "h77", "#abcdef", "light gray"]
PARTNERS = ["brown", "default", "black", "white"]


def fg_cases():
    for d in DEPTHS:
        for tok in COLOUR_TOKENS:
            yield {"fg": tok, "bg": "", "colors": d}


def bg_cases():
    for d in DEPTHS:
        for tok in COLOUR_TOKENS:
            yield {"fg": "", "bg": tok, "colors": d}


def settings_cases(full=False):
    """every ordered subset alone and with a colour at every position (quick: two representative
    colours per position, rotating; thorough: all eight)"""
    n = 0
    ncol = len(REP_COLOURS)
    for d in DEPTHS:
        for pi, perm in enumerate(ORDERED_SUBSETS):
            variants = [perm]  # settings only
            for pos in range(len(perm) + 1):
                cols = REP_COLOURS if full else (REP_COLOURS[(pi + pos) % ncol], REP_COLOURS[(pi + pos + 3) % ncol])
                for col in cols:
                    variants.append([*perm[:pos], col, *perm[pos:]])
            for parts in variants:
                n += 1
                sep = (",", ", ", " , ", " ,")[n % 4]
                yield {"fg": sep.join(parts), "bg": REP_BGS[n % len(REP_BGS)], "colors": d}


def pair_cases(full=False):
    small = ["", "default", *BASIC]
    partners = PARTNERS if full else PARTNERS[:2]
    pairings = ((1009, 17), (2003, 911), (3001, 2500)) if full else ((1009, 17), (2003, 911))
    for d in DEPTHS:
        for f in small:
            for b in small:
                yield {"fg": f, "bg": b, "colors": d}
        for p in partners:
            for tok in COLOUR_TOKENS[18:]:
                yield {"fg": p, "bg": tok, "colors": d}
                yield {"fg": tok, "bg": p, "colors": d}
        for mult, off in pairings:  # multipliers coprime to N_TOK = 4727 = 29 * 163: permutations
            for i, tok in enumerate(COLOUR_TOKENS):
                other = COLOUR_TOKENS[(i * mult + off) % N_TOK]
                s = ORDERED_SUBSETS[(i * 7 + off) % 1957]
                yield {"fg": ",".join([tok, *s]) if tok else ",".join(s), "bg": other, "colors": d}


UNKNOWN_NAMES = [
    "blue", "red", "green", "grey", "gray", "light grey", "dark grey", "orange", "purple", "pink", "magenta",
    "cyan", "none", "transparent", "bright red", "light black", "dark white", "darkred", "lightgray", "foo",
    "h", "g", "hh", "gg", "x", "abcdefg", "hgreens", "bolditalics", "underlined", "italic", "strike", "reverse",
    "dim", "inherit", "dark", "light", "dark yellow", "light brown", "gx", "hx", "ghi", "high", "gold", "hot",
    "abc", "fff", "deadbee", "facade", "é", "schwarz", "czarny", "черный", "黒",
]


def reject_cases():
    for d in DEPTHS:
        for name in UNKNOWN_NAMES:
            yield {"fg": name, "bg": "", "colors": d, "intent": "reject"}
            yield {"fg": "", "bg": name, "colors": d, "intent": "reject"}
            yield {"fg": f"bold,{name}", "bg": "", "colors": d, "intent": "reject"}
            yield {"fg": f"{name}, underline", "bg": "default", "colors": d, "intent": "reject"}
            yield {"fg": "standout", "bg": name, "colors": d, "intent": "reject"}
        for s in SETTINGS:
            for o in SETTINGS:
                yield {"fg": f"{s},{s}", "bg": "", "colors": d, "intent": "reject"}
                yield {"fg": f"{s}, {o}, {s}", "bg": "", "colors": d, "intent": "reject"}
                yield {"fg": f"{o},{s} ,{s}", "bg": "", "colors": d, "intent": "reject"}
                for col in ("default", "white", "h9", "#123", "#123456"):
                    yield {"fg": f"{col},{s},{o},{s}", "bg": "", "colors": d, "intent": "reject"}
                    yield {"fg": f"{s},{col},{s}", "bg": "", "colors": d, "intent": "reject"}
        two = ["default", "black", "white", "yellow", "h0", "h8", "h87", "h88", "h255", "#000", "#fff", "#80f",
               "g0", "g50", "g100", "g#00", "g#80", "#000000", "#ffffff", "#12abEF"]
        for x in two:
            for y in two:
                yield {"fg": f"{x},{y}", "bg": "", "colors": d, "intent": "reject"}
                yield {"fg": f"{x}, bold, {y}", "bg": "", "colors": d, "intent": "reject"}
        if d <= 256:
            for n in [*range(256, 301), 999, 1000, 1255, 9999, 65536]:
                yield {"fg": f"h{n}", "bg": "", "colors": d, "intent": "reject"}
                yield {"fg": "", "bg": f"h{n}", "colors": d, "intent": "reject"}


# component values around the cube levels / 4-bit truncation boundaries of both palettes
_LATTICE = sorted(
    {0, 1, 0x0F, 0x10, 0x2F, 0x30, 0x45, 0x46, 0x5E, 0x5F, 0x60, 0x72, 0x73, 0x7F, 0x80, 0x87, 0x88, 0x8A, 0x8B,
     0x8C, 0xAC, 0xAF, 0xB0, 0xCC, 0xCD, 0xCE, 0xD7, 0xD8, 0xE6, 0xEF, 0xF0, 0xFF}
)
TRUE_PARTNERS = ["", "black", None, "h9", "light gray", "g50", "default", None]
TRUE_FG_SETTINGS = ["", ",bold", ",underline,blink", ",strikethrough,italics,standout"]


def true_case(v: int, k: int):
    """k selects depth (k % 3) and side / partner / spelling (k // 3)."""
    d = (T, 256, 88)[k % 3]
    j = v + k // 3
    tok = f"#{v:06X}" if j % 7 == 0 else f"#{v:06x}"
    partner = TRUE_PARTNERS[j % len(TRUE_PARTNERS)]
    if partner is None:
        partner = f"#{(v * 2654435761 + 12345) % T:06x}"
    if (j >> 3) % 2:
        case = {"fg": partner + TRUE_FG_SETTINGS[(j >> 4) % 4] if partner else TRUE_FG_SETTINGS[(j >> 4) % 4][1:],
                "bg": tok, "colors": d}
    else:
        case = {"fg": tok + TRUE_FG_SETTINGS[(j >> 4) % 4], "bg": partner, "colors": d}
    if (v ^ (v >> 8) ^ (v >> 16)) & 7:
        case["lite"] = True  # skip the minimal-depth clause (checked for every 8th value)
    return case


def true_values(ctx):
    """this shard's 24-bit values"""
    if ctx.tier == "thorough":
        return range(ctx.shard, T, ctx.nshards)
    step = 83
    strided = range((ctx.seed % step) + step * ctx.shard, T, step * ctx.nshards)
    lattice = [
        (r << 16) | (g << 8) | b
        for i, (r, g, b) in enumerate(itertools.product(_LATTICE, repeat=3))
        if i % ctx.nshards == ctx.shard
    ]
    grays = [v * 0x010101 for v in range(256) if v % ctx.nshards == ctx.shard]
    return itertools.chain(strided, lattice, grays)


def true_cases(ctx):
    """quick: each sampled value at one depth (rotating), thorough: every value at 2**24, 256 and 88"""
    if ctx.tier == "thorough":
        for n, v in enumerate(true_values(ctx)):
            for k in range(3):
                yield true_case(v, k + 3 * (n % 2))
    else:
        for n, v in enumerate(true_values(ctx)):
            yield true_case(v, n % 6)


# ---------------------------------------------------------------------------------------------
# Hypothesis: strings around the grammar

_near_tok = st.one_of(
    st.from_regex(r"(h|g|g#|#)[0-9a-fA-Fg+\-_ x]{0,7}", fullmatch=True),
    st.from_regex(r"#[0-9a-fA-F]{0,8}", fullmatch=True),
    st.from_regex(r"h[0-9]{1,5}", fullmatch=True),
    st.from_regex(r"g#?[0-9a-fA-F]{0,4}", fullmatch=True),
    st.from_regex(r"[hg#][\-+]?[0-9]{1,3}", fullmatch=True),
    st.from_regex(r"#[0-9a-f\-+ ]{6}", fullmatch=True),
    st.from_regex(r"#[0-9a-fg-z]{3}", fullmatch=True),
)
_valid_tok = st.one_of(
    st.sampled_from(["", "default", *BASIC]),
    st.sampled_from(COLOUR_TOKENS),
    st.integers(0, T - 1).map(lambda v: f"#{v:06x}"),
    st.sampled_from(["h0", "h1", "h15", "h16", "h79", "h80", "h87", "h88", "h231", "h232", "h245", "h255", "h256"]),
)


def _mutate(args):
    tok, pos, ch, mode = args
    pos = pos % (len(tok) + 1)
    if mode == 0:
        return tok[:pos] + ch + tok[pos:]
    if mode == 1:
        return tok[:pos] + ch + tok[pos + 1:]
    if mode == 2:
        return tok[:pos] + tok[pos + 1:]
    return tok.upper() if pos % 2 else tok.title()


_mutated_tok = st.tuples(
    st.one_of(_valid_tok, st.sampled_from(SETTINGS)),
    st.integers(0, 12),
    st.one_of(st.sampled_from(list("0123456789abcdefgh#-+_ ,x\t\n")), st.characters()),
    st.integers(0, 3),
).map(_mutate)
_alpha_tok = st.text(alphabet="abcdefghijklmnopqrstuvwxyzABCDEFG éßжñ", min_size=1, max_size=10)
_any_text = st.text(max_size=12)
_setting = st.sampled_from(SETTINGS)
_part = st.one_of(_setting, _setting, _valid_tok, _valid_tok, _near_tok, _mutated_tok, _alpha_tok, _any_text)
_sep = st.sampled_from([",", ",", ",", ", ", " ,", " , ", ",,", ";", ",\t", ""])


def _join(args):
    parts, seps = args
    out = []
    for i, p in enumerate(parts):
        if i:
            out.append(seps[i % len(seps)])
        out.append(p)
    return "".join(out)


_fg = st.one_of(
    st.tuples(st.lists(_part, min_size=0, max_size=5), st.lists(_sep, min_size=1, max_size=3)).map(_join),
    # duplicated settings / several colours among otherwise valid parts
    st.tuples(
        st.lists(st.one_of(_setting, _valid_tok), min_size=1, max_size=7), st.lists(st.sampled_from([",", ", "]), min_size=1, max_size=2)
    ).map(_join),
    _part,
)
_bg = st.one_of(_valid_tok, _valid_tok, _near_tok, _mutated_tok, _alpha_tok, _any_text, _setting)
_fuzz_case = st.fixed_dictionaries({"fg": _fg, "bg": _bg, "colors": st.sampled_from([1, 16, 88, 88, 256, 256, T, T])})

# characters that str.isdigit() / isdecimal() / isalnum() / int() or case folding treat like ASCII digits or hex letters
LOOKALIKES = ["\u00b2", "\u00b9", "\u0663", "\u0967", "\uff13", "\u2460", "\uff21", "\uff41", "\uff46", "\u00aa", "\u2170", "\u0131"]


def lookalike_cases():
    """every valid colour shape with one character replaced by a non-ASCII look-alike, every position, fg and bg,
    every depth: all of these are outside the documented grammar"""
    shapes = ["#000000", "#7fa0c0", "#000", "#fa8", "h10", "h100", "g50", "g#80", "g7"]
    for shape in shapes:
        for pos in range(1 if shape[0] in "#hg" else 0, len(shape)):
            if shape.startswith("g#") and pos == 1:
                continue
            for ch in LOOKALIKES:
                tok = shape[:pos] + ch + shape[pos + 1:]
                for colors in (1, 16, 88, 256, T):
                    yield {"fg": tok, "bg": "", "colors": colors}
                    yield {"fg": "", "bg": tok, "colors": colors}


# ---------------------------------------------------------------------------------------------
# counters

_NT = re.compile(r"#|(?:^|[,|])\s*[hg][0-9]")


def _nontrivial(case):
    return _NT.search(case["fg"] + "|" + case["bg"]) is not None


def _classify(name):
    def classify(case):
        kind, info = expect(case["fg"], case["bg"], case["colors"])
        out = [f"sweep-{name}:{kind}", f"depth:{case['colors']}"]
        if kind == "reject":
            out.append(f"reject:{info}")
        elif kind == "valid":
            out.append(f"fg:{info['fg'][0]}")
            out.append(f"bg:{info['bg'][0]}")
        return out

    return classify


def _classify_true(case):
    return [f"true:depth{case['colors']}"]


def shard(ctx):
    full = ctx.tier == "thorough"
    sweeps = [
        ("fg", fg_cases, ("rt", "palette"), "every colour token as foreground x 5 depths"),
        ("bg", bg_cases, ("rt", "palette"), "every colour token as background x 5 depths"),
        ("settings", lambda: settings_cases(full), ("rt", "palette") if full else ("rt",),
         "every subset and order of the six settings x 5 depths"),
        ("pairs", lambda: pair_cases(full), ("rt", "palette"), "foreground x background pairings x 5 depths"),
        ("reject", reject_cases, ("rt", "palette"),
         "enumerated unknown names / duplicated settings / two colours / over-depth numbers"),
    ]
    for name, gen, subs, desc in sweeps:
        for sub in subs:
            if ctx.failure is not None:
                return
            ctx.sweep(sub, gen(), nontrivial=_nontrivial, classify=_classify(name) if sub == "rt" else None,
                      exhaustive_name=f"{desc} [{sub}]")
    if ctx.failure is not None:
        return
    ctx.sweep("true", true_cases(ctx), nontrivial=None, classify=_classify_true, stride=False,
              exhaustive_name="all 2**24 #rrggbb values at 2**24, 256 and 88" if full else None)
    if ctx.failure is None:
        ctx.sweep("fuzz", lookalike_cases(), nontrivial=lambda c: True, classify=_classify("fuzz"),
                  exhaustive_name="colour shapes with one non-ASCII digit / letter look-alike at every position")
    if ctx.failure is None:
        ctx.given("fuzz", _fuzz_case, ctx.scale(800, 40000), nontrivial=_nontrivial, classify=_classify("fuzz"))


# ---------------------------------------------------------------------------------------------
# known findings (active only if listed in known_findings.d/C18.json / known_findings.json as "known")


def _fg_parts(case):
    return [p.strip() for p in case["fg"].split(",")]


def _plain(tok):
    """default / basic / setting / empty: a part that names no high or true colour"""
    return tok in ("", "default") or tok in _BASIC_INDEX or tok in SETTINGS


def _known_true_flag_sticky(sub, case, v):
    # AttrSpec(fg, bg, 2**24) without any high/true colour keeps an internal "true colour" flag that
    # foreground/background/colors do not show: the rebuilt specification is unequal
    return (
        v.clause == "round-trip"
        and case["colors"] == T
        and all(_plain(p) for p in _fg_parts(case))
        and _plain(case["bg"])
    )


def _zero_number(tok):
    digits = [c for c in tok[1:] if c.isdigit()]
    return tok.startswith("h") and digits and all(unicodedata.digit(c, None) == 0 for c in digits)


def _known_desc88_zero(sub, case, v):
    # colour number 0 as a high colour in 88-colour mode cannot be described
    return (
        v.clause == "exception:ValueError@display/common.py:_color_desc_88"
        and case["colors"] == 88
        and (any(_zero_number(p) for p in _fg_parts(case)) or _zero_number(case["bg"]))
    )


def _bad_hex(tok, lengths):
    return tok.startswith("#") and len(tok) in lengths and _RE_TRUE.match(tok) is None and _RE_CUBE.match(tok) is None


def _known_unvalidated_hex(sub, case, v):
    # '#' + 6 characters (1/16/256/2**24 colours) or '#' + 3 characters (2**24) that are not hex digits reach int()
    # unvalidated: ValueError/TypeError from the constructor, or a negative colour value that breaks the accessors
    if not v.clause.startswith("exception:") or case["colors"] == 88:
        return False  # the 88-colour parser catches ValueError itself
    exc, _, frame = v.clause.partition("@")
    if exc not in ("exception:ValueError", "exception:TypeError", "exception:IndexError"):
        return False
    if frame.rpartition(":")[2] not in (
        "<genexpr>", "_true_to_256", "_parse_color_true", "_color_desc_256", "_foreground_color", "background", "get_rgb_values"
    ):
        return False
    lengths = (4, 7) if case["colors"] == T else (7,)  # depths 1, 16, 256 all go through _true_to_256
    return any(_bad_hex(p, lengths) for p in _fg_parts(case)) or _bad_hex(case["bg"], lengths)


def _gray_target(cls):
    if cls[0] == "ghex":
        return [cls[1]]
    if cls[0] == "gpct":
        return [cls[1] * 255 // 100, -((-cls[1] * 255) // 100)]
    return []


def _side_token(case, side):
    if side == "bg":
        return case["bg"]
    toks = [p for p in _fg_parts(case) if p not in SETTINGS]
    return toks[0] if len(toks) == 1 else ""


def _known_gray_245(sub, case, v):
    # _GRAY_STEPS_256 has 0x84 where xterm has 0x8a (colour 245): wrong RGB, and the nearest-gray
    # boundaries on either side of it are shifted
    name, _, side = v.clause.partition(":")
    if side not in ("fg", "bg"):
        return False
    cls = colour_class(_side_token(case, side))
    if cls is None:
        return False
    if name == "rgb-table[h]":
        return cls == ("h", 245) and case["colors"] in (256, T) and "(132, 132, 132)" in v.message
    if case["colors"] != 256:
        return False
    if name == "rgb-table[gray]":
        return any(130 <= t <= 139 for t in _gray_target(cls)) and "(132, 132, 132)" in v.message
    if name == "nearest[gray]":
        return any(140 <= t <= 142 for t in _gray_target(cls))
    return False


def _known_basic_rgb_in_true(sub, case, v):
    # get_rgb_values() of a basic colour whose partner is a true colour decodes the colour *number* as 0xRRGGBB
    name, _, side = v.clause.partition(":")
    if name != "rgb-table[basic]" or case["colors"] != T or side not in ("fg", "bg"):
        return False
    other = case["bg"] if side == "fg" else _side_token(case, "fg")
    return _side_token(case, side) in _BASIC_INDEX and not _plain(other)


KNOWN = {
    "C18-true-depth-flag-sticky": _known_true_flag_sticky,
    "C18-88-colour-number-0-undescribable": _known_desc88_zero,
    "C18-unvalidated-hex-digits": _known_unvalidated_hex,
    "C18-gray-245-wrong-step": _known_gray_245,
    "C18-basic-rgb-with-true-partner": _known_basic_rgb_in_true,
}
