"""C19 — containers partition the available space exactly and proportionally.

Columns.column_widths / get_column_sizes, box Pile row division, the alignment arithmetic of
Padding / Filler / Overlay and the GridFlow arrangement, checked over whole ranges of small integers
(exhaustive, sharded) and by Hypothesis beyond those ranges.  Children are *probe* widgets defined
here: they record every size they are handed (rows / pack / render) and raise a Violation the moment
a negative or non-integer dimension reaches them, so "no child is ever handed a negative dimension"
is asserted everywhere, not only where an oracle looks.

Oracle readings (the weaker one wherever the statement leaves room, see DESIGN.md C19):

* Columns "fill exactly when a weighted column is shown": the dividers counted are those between
  visible columns; a retained *zero-width packed* column keeps its divider in urwid's accounting, so
  for lists containing such columns the total may fall short by one divider per such column.
* proportionality is only asserted when every visible weighted column is strictly above min_width
  ("unless the minimum width intervenes"), with the rounding-aware bound 0.5*k + 0.5.
* box Pile: given/pack items always keep their own size (Pile has no column dropping, it trims the
  canvas); "sum == maxrow" and proportionality are asserted when the given/pack items fit, and
  weighted items get 0 rows when they do not.  Nothing is asserted about focus visibility of a Pile.
* Padding/Filler/Overlay "the remaining space otherwise": when the requested size does not fit
  beside the fixed margins the child gets at least the space beside the margins and at most
  min(requested, available) (urwid lets the margins give way first, which is inside that range).
* "split according to the percentage to within rounding": |left extra - spare*pct/100| < 1.
* zero weights / zero given sizes: only "no negative / non-integer dimension, no crash" is asserted.
* GridFlow "the configured cell width": the width in force when the grid is drawn - after `grid.cell_width = k` it
  is k for every cell (the setter's docstring: "Setting this value affects all cells") - and "every cell in reading
  order" is the current .contents; sub grid_hist drives one GridFlow through a history of re-configurations and
  content changes and re-applies the construction-time oracle after every step.
* a packed child's "own size" is the one it asks for when the container is laid out: cases with a "resize" list lay
  one Columns / Pile out three times at every size (as built; after the listed children changed their amount - a
  packed probe by answering another pack() / rows() and invalidating only itself, a given / weighted child
  re-optioned through .contents; after they changed back) and apply the same oracle to the children as they are then.
* a GridFlow cell may be given a width of its own through .contents (the contents docstring: "number is the number of
  screen columns to allocate to this cell"): that number is then that cell's configured width until an assignment to
  .cell_width - of any value, the current one included - or the widget-only .cells setter brings every cell back to
  the common width.
* "every combination of given, packed and weighted children" is a combination of *options*, however the
  caller wrote them down: constructor tuples (int / 'given' / WHSettings.GIVEN / legacy 'fixed', 'pack' / legacy
  'flow', 'weight' / bare widget), or (widget, options) entries put into .contents with a plain tuple of
  strings (as the contents docstring spells them), of WHSettings members, or built by .options().  The oracle
  never looks at the spelling; cases carry it in "spell".
"""
from __future__ import annotations

import itertools
import math
import warnings
from fractions import Fraction

from hypothesis import strategies as st

import urwid
from urwid.widget.constants import normalize_align, normalize_height, normalize_valign, normalize_width
from urwid.widget.filler import calculate_top_bottom_filler
from urwid.widget.padding import calculate_left_right_padding
from urwid.widget.widget import WidgetWarning
from vlib.runner import Discard, Violation

PROPERTY = "C19"
LEVEL = "exploration"
RULE = (
    "Exhaustive (sharded) enumeration: Columns.column_widths for <=4 (quick; <=5 thorough) children of kind "
    "given 1..6 / pack (fixed child of width 0..6) / weight 1..4 and 1.5, dividechars 0..2, min_width 1..3, every "
    "focus position, maxcol 1..24 (lists of <=3 children use the full option set, longer lists a reduced one in the "
    "quick tier); get_column_sizes + render with probe children incl. box_columns flags and box-sized Columns on a "
    "reduced grid; box Pile get_item_rows for <=4 items (given 1..6 / pack rows 0..6 / weight) x maxrow 1..24 and "
    "get_rows_sizes + render on a reduced grid; the Columns / Pile render grids again with the options written in "
    "every other documented spelling (constructor tuples with 'given'/'pack'/'weight' strings, WHSettings members, "
    "legacy 'fixed'/'flow'/bare widget; .contents entries as plain string tuples, WHSettings tuples, or built by "
    ".options() from a string or a member) for all children and in a rotating per-child mixture; the same render "
    "grids (Pile <=3 items, thorough 4; Columns <=3 children at dividechars 1, min_width 2, quick without box_columns "
    "flags) with ONE container laid out three times at every size - as built, after a child changed its amount, "
    "after it changed back, canvases kept, canvas cache not cleared in between - for each packed child alone "
    "changing by itself (its probe answers another size and calls only its own _invalidate()) to every other size "
    "of 0/1/3/5, all packed children together, and each given / weighted child re-optioned through .contents to one "
    "other amount; "
    "calculate_left_right_padding and calculate_top_bottom_filler for "
    "every align kind (left/center/right, relative 0..100 step 5), given sizes 1..12, relative 0..100 step 5 with "
    "min None/1/3/6, clip, margins 0..5 x 0..5, sizes 1..30; Padding / Filler / Overlay rendered with a probe child "
    "on reduced grids; GridFlow with <=7 cells, cell width 1..6, h_sep 0..2, v_sep 0..1, maxcol 1..30; GridFlow "
    "histories on ONE object (canvas cache not cleared between steps): every history of one or two ops out of 24 "
    "(cell_width := 1/3/4/6, cell_width := the value it has, the first cell given a width of 1 / the last a width of "
    "5 of its own by replacing its .contents entry, h_sep := 0/2, v_sep := 1, align := right, append a cell with its "
    "options written as "
    "options() / options('given') / options(GIVEN, width) / ('given', width) / (WHSettings.GIVEN, width), insert "
    "at 0 / 1, delete first / last, focus first / last, .contents re-assigned with the same entries rotated, the "
    "backwards-compatible .cells setter) on grids of 1/3/5 cells (thorough also 2/7), cell width 2/4, h_sep 0/1, "
    "focus first/last, drawn after the constructor and after every op at maxcol 5, 13 and as a fixed widget "
    "(render(())); the oracle is the construction-time one applied to the model (cells in .contents order, each "
    "min(its configured width, maxcol) wide - the common cell_width unless the cell was given its own since the last "
    "assignment to cell_width).  Hypothesis "
    "beyond those ranges (up to 8 children, sizes up to 200, weights incl. fractions, arbitrary percentages, a "
    "spelling drawn per child, in half of the Columns / Pile cases 1..3 children that change their amount and back; "
    "GridFlow histories of up to 8 ops incl. own widths 1..20, cell widths up to 20, 1..3 sizes up to 120).  "
    "A configuration is one (widget options, size) pair; a case carries a size range so one case = many "
    "configurations (counted as class 'cfg:*').  Non-trivial: a column/row has to be dropped or the weighted "
    "space leaves a remainder (Columns/Pile); the requested size does not fit beside the margins or the spare "
    "space is not split evenly (Padding/Filler/Overlay); more than one grid row or a size below the cell width "
    "(GridFlow); a history that re-configures the cell width or changes the cells and is drawn at a size where "
    "some configured width needs more than one row (GridFlow histories)."
)
ASSUMPTIONS = [
    "probe children (Widget subclasses in this module) answer rows()/pack() deterministically from their spec and "
    "render a canvas of exactly the size they are asked for",
    "Python integer / Fraction arithmetic is the reference for shares and percentages",
    "a tree during which urwid emits one of its own sizing warnings (other than 'too narrow size' / 'Size is "
    "smaller than cell width', which describe the not-fitting case the property covers) is mis-built and discarded",
    "ASCII-only probe glyphs: the result does not depend on the byte encoding",
    "the option spellings used are the ones the constructor docstrings / type hints, the contents docstrings and "
    "options() document, plus the constructor's backwards-compatible 'fixed' / 'flow' forms; children spelled "
    "through .contents are inserted after construction and the focus is then set with focus_position",
    "GridFlow histories: 'the configured cell width' is read as the width in force when the grid is drawn (the "
    "constructor argument or the last assignment to .cell_width, which its docstring says affects all cells - an "
    "assignment of the value it already has included); new cells are added with options that name that same width "
    "(options() default or the width written out); a cell whose .contents entry was replaced by one naming another "
    "number of columns (>= 1) is configured to that width ('number is the number of screen columns to allocate to "
    "this cell') until the next assignment to .cell_width or .cells; a fixed GridFlow offers its cells the width of "
    "len(cells) common-width cells plus separators; nothing is asserted about h_sep / v_sep / align (assigning them "
    "is only a perturbation) and the grid always keeps at least one cell; the deprecated .cells setter is used as "
    "documented (its DeprecationWarning is not a sizing warning)",
    "resized children: a packed child that wants another size says so the way urwid's own widgets do (Text.set_text, "
    "Edit): it calls its own _invalidate() and nothing else; given / weighted amounts change through "
    "container.contents[i] = (widget, container.options(kind, amount[, box flag])); the kind of a child never changes",
]

BOX, FLOW, FIXED = urwid.BOX, urwid.FLOW, urwid.FIXED
EPS = 1e-9
STATS: dict[str, int] = {}


def _stat(label, n=1):
    STATS[label] = STATS.get(label, 0) + n


# ---------------------------------------------------------------------------------------------
# probes


def _pattern_char(x, y):
    return 97 + (x + 5 * y) % 26


class Probe(urwid.Widget):
    """Records every size it is handed; renders a canvas of exactly that size.

    glyph: one ASCII letter -> uniform fill; None -> position pattern (column x, row y -> a letter)
    fixed: (cols, rows) answered to pack(()) when FIXED is in the sizing
    nrows / area: rows(maxcol) = nrows, or ceil(area / maxcol) when area > 0 (rows depend on the width)
    natural: pack((maxcol,)) answers min(natural, maxcol) columns (like Text) when set
    """

    no_cache = ["render", "rows"]  # noqa: RUF012
    _selectable = False

    def __init__(self, name, log, sizing, glyph=None, fixed=None, nrows=1, area=0, natural=None):
        super().__init__()
        self.name = name
        self.log = log
        self._sizing = frozenset(sizing)
        self.glyph = glyph
        self.fixed = tuple(fixed) if fixed is not None else None
        self.nrows = nrows
        self.area = area
        self.natural = natural

    def _record(self, what, size):
        size = tuple(size)
        self.log.append((self.name, what, size))
        for v in size:
            if isinstance(v, bool) or not isinstance(v, int):
                raise Violation("non-integer-dimension", f"child {self.name} was handed {what} size {size!r}")
            if v < 0:
                raise Violation("negative-dimension", f"child {self.name} was handed {what} size {size!r}")
        if {0: FIXED, 1: FLOW, 2: BOX}.get(len(size)) not in self._sizing:
            # a size of a kind the probe does not declare: the tree is mis-built (C01's business)
            _stat("probe:wrong-size-kind(discarded)")
            raise Discard()

    def rows_for(self, cols):
        if self.area:
            return max(1, -(-self.area // max(cols, 1)))
        return self.nrows

    def rows(self, size, focus=False):
        self._record("rows", size)
        return self.rows_for(size[0])

    def pack(self, size=(), focus=False):
        self._record("pack", size)
        if not size:
            return self.fixed
        if len(size) == 1:
            cols = size[0] if self.natural is None else min(self.natural, size[0])
            return (cols, self.rows_for(size[0]))
        return tuple(size)

    def render(self, size, focus=False):
        self._record("render", size)
        if len(size) == 2:
            cols, rows = size
        elif len(size) == 1:
            cols, rows = size[0], self.rows_for(size[0])
        else:
            cols, rows = self.fixed
        if cols == 0 or rows == 0:
            return urwid.SolidCanvas(" ", cols, rows)
        if self.glyph is not None:
            return urwid.SolidCanvas(self.glyph, cols, rows)
        return urwid.TextCanvas([bytes(_pattern_char(x, y) for x in range(cols)) for y in range(rows)], maxcol=cols)


_ALLOWED_WARNINGS = ("too narrow size", "Size is smaller than cell width")


def _guarded(fn):
    """Run a check with urwid's warnings recorded: any sizing warning means a mis-built tree."""

    def run(case):
        with warnings.catch_warnings(record=True) as wlog:
            warnings.simplefilter("always")
            try:
                fn(case)
            except Discard:
                raise
            except Exception:
                if _bad_warnings(wlog):
                    raise Discard() from None
                raise
        if _bad_warnings(wlog):
            raise Discard()

    run.__name__ = fn.__name__
    run.__doc__ = fn.__doc__
    return run


def _bad_warnings(wlog):
    for w in wlog:
        if issubclass(w.category, WidgetWarning) and not any(a in str(w.message) for a in _ALLOWED_WARNINGS):
            return True
    return False


def _is_int(v):
    return isinstance(v, int) and not isinstance(v, bool)


def _rows_of(canvas):
    return [bytes(t).decode("ascii", "replace") for t in canvas.text]


# ---------------------------------------------------------------------------------------------
# shared share/proportion oracle


def _int_weights(weights):
    """positive weights (int or float) -> proportional positive integers (exact)."""
    fr = [Fraction(w) for w in weights]
    den = 1
    for f in fr:
        den = den * f.denominator // math.gcd(den, f.denominator)
    return [int(f * den) for f in fr]


def _check_shares(what, weights, got, floor, msg, slack=0):
    """weights[i]: positive integers, got[i] = size given to weighted child i (all visible); msg()
    builds the context text.  Asserted only when every size is strictly above `floor` (the minimum
    width did not intervene).  Returns None if not asserted, else whether a remainder existed.
    slack: by how much a heavier weight may fall behind a lighter one (0 for Columns, which hands out
    space in order of weight; 1 for Pile, which rounds in list order, so with [3, 4, 4] over 2 rows
    the shares 0.55 / 0.73 / 0.73 become 1 / 1 / 0 - each within one row of its share, which is all
    the statement asks)."""
    k = len(got)
    if k == 0:
        return None
    for g in got:
        if g <= floor:
            return None
    total = sum(got)
    wsum = sum(weights)
    # two weighted children: the first is rounded to the nearest column and the second takes the rest, so
    # the statement's literal "within one column" is used; from three on, the rounding-aware bound
    dev = 1.0 if k <= 2 else 0.5 * k + 0.5
    bound = dev * wsum + EPS
    remainder = False
    for i in range(k):
        wi, gi = weights[i], got[i]
        # |got - total*w/W| <= bound   <=>   |got*W - total*w| <= bound*W
        if abs(gi * wsum - total * wi) > bound:
            raise Violation(
                f"{what}-proportional",
                f"{msg()}: weighted child {i} of the visible weighted ones got {gi}, exact share "
                f"{total * wi / wsum:.3f} of {total} (allowed deviation {dev})",
            )
        if (total * wi) % wsum:
            remainder = True
        for j in range(k):
            wj = weights[j]
            if wi > wj:
                # from three weighted children on, one-at-a-time rounding can leave a heavier child one behind a
                # lighter one although both are within one column of their share ([7, 7, 7, 7.5, 7.5] over 17
                # columns: 3 3 4 4 3) - the statement asks for no more than that
                if gi < got[j] - max(slack, 1 if k >= 3 else 0):
                    raise Violation(f"{what}-monotone", f"{msg()}: a heavier weight got {gi}, a lighter one {got[j]}")
            elif wi == wj and abs(gi - got[j]) > (1 if k <= 4 else 2):
                # same rounding-aware reading as `dev` above: one item is rounded at a time, so up to half a unit
                # of error per earlier item accumulates; from five weighted items on two equal weights at the two
                # ends of the list can end up 2 apart ([3, .5, .5, .5, .5, 3] over 12 rows: 5 1 1 1 1 3)
                raise Violation(f"{what}-equal-weights", f"{msg()}: equal weights got {gi} and {got[j]}")
    return remainder


# ---------------------------------------------------------------------------------------------
# spellings: the documented / still supported ways to say "this child is given n / packed / weighted w"

# case key "spell" (Columns and Pile): None / absent = every child "ctor", a string = every child that
# spelling, a list = one spelling per child.  All of them describe the same container, so the same oracle
# applies whichever is used:
#   ctor          constructor tuples as in the constructor docstring: (n, w)  ('pack', w)  ('weight', a, w)
#   ctor-str      constructor tuples with the kind as a plain string (type hints): ('given', n, w) ...
#   ctor-enum     constructor tuples with the WHSettings member: (WHSettings.GIVEN, n, w) ...
#   ctor-legacy   the backwards-compatible constructor forms: ('fixed', n, w)  ('flow', w), and a bare
#                 widget for weight 1 ("Widgets not in a tuple are the same as ('weight', 1, widget)")
#   contents-str  inserted into .contents with a plain options tuple as the contents docstring writes
#                 it: (w, ('given', n))   [Columns: (w, ('given', n, box_widget))]
#   contents-enum the same with the WHSettings member
#   options-str   inserted into .contents with container.options('given', n [, box_widget])
#   options-enum  inserted into .contents with container.options(WHSettings.GIVEN, n [, box_widget])
SPELLS = ("ctor", "ctor-str", "ctor-enum", "ctor-legacy", "contents-str", "contents-enum", "options-str", "options-enum")
_WH = {"given": urwid.WHSettings.GIVEN, "pack": urwid.WHSettings.PACK, "weight": urwid.WHSettings.WEIGHT}


def _spells_of(case, n):
    sp = case.get("spell")
    if sp is None:
        return ["ctor"] * n
    if isinstance(sp, str):
        return [sp] * n
    if len(sp) != n or any(x not in SPELLS for x in sp):
        raise Discard()
    return list(sp)


def _ctor_entry(kind, amount, w, spell):
    if spell == "ctor-legacy":
        if kind == "pack":
            return ("flow", w)
        if kind == "given":
            return ("fixed", amount, w)
        return w if amount == 1 and not isinstance(amount, float) else ("weight", amount, w)
    if spell == "ctor":
        if kind == "given":
            return (amount, w)
        k = kind
    else:
        k = _WH[kind] if spell == "ctor-enum" else kind
    return (k, w) if kind == "pack" else (k, amount, w)


def _build_container(cls, kinds, widgets, spells, focus, boxflags=None, **kwargs):
    """cls: urwid.Columns / urwid.Pile; kinds[i] = (kind, amount); boxflags: set of indices (Columns only).
    Children spelled ctor* go through the constructor (box flags through box_columns), the others are
    inserted into .contents afterwards at their index (box flag as the third options element); the focus
    is then set through focus_position."""
    n = len(kinds)
    is_cols = cls is urwid.Columns
    ctor_idx = [i for i in range(n) if spells[i].startswith("ctor")]
    entries = [_ctor_entry(kinds[i][0], kinds[i][1], widgets[i], spells[i]) for i in ctor_idx]
    if len(ctor_idx) == n:
        if is_cols:
            return cls(entries, focus_column=focus, box_columns=sorted(boxflags or ()), **kwargs)
        return cls(entries, focus_item=focus)
    if is_cols:
        box_columns = [j for j, i in enumerate(ctor_idx) if i in (boxflags or ())]
        cont = cls(entries, box_columns=box_columns, **kwargs)
    else:
        cont = cls(entries)
    for i in range(n):
        sp = spells[i]
        if sp.startswith("ctor"):
            continue
        kind, amount = kinds[i]
        k = _WH[kind] if sp.endswith("-enum") else kind
        a = None if kind == "pack" else amount
        extra = (i in (boxflags or ()),) if is_cols else ()
        opts = cont.options(k, a, *extra) if sp.startswith("options") else (k, a, *extra)
        cont.contents.insert(i, (widgets[i], opts))
    cont.focus_position = focus
    return cont


def _spell_classes(prefix, case):
    sp = case.get("spell")
    if sp is None:
        return []
    if isinstance(sp, str):
        return [f"{prefix}:spelling={sp}"]
    return [f"{prefix}:spelling=mixed"] + [f"{prefix}:spelling={x}" for x in sorted(set(sp))]


# ---------------------------------------------------------------------------------------------
# Columns

# case: {"children": [[kind, amount], ...], "d": dividechars, "mw": min_width, "focus": i,
#        "maxcol": [lo, hi], "mode": "flow"|"box", "box": [indices flagged in box_columns], "render": bool}


def _resize_classes(prefix, case, kids):
    rs = case.get("resize") or ()
    kinds = sorted({kids[i][0] for i, _new in rs if _is_int(i) and 0 <= i < len(kids)})
    out = [f"{prefix}:resized={k}" + ("(by itself)" if k == "pack" else "(through .contents)") for k in kinds]
    if len(rs) > 1:
        out.append(f"{prefix}:resized=several-children")
    return out


def _columns_loose(children):
    return any(k in ("given", "weight") and a == 0 for k, a in children)


def _columns_oracle(children, wint, zero_packed, loose, d, mw, focus, maxcol, widths, note=""):
    """wint: {index: integer weight} for the weighted children; zero_packed: number of pack children of width 0"""
    n = len(children)

    def msg():
        return f"children={children}{note} dividechars={d} min_width={mw} focus={focus} maxcol={maxcol}: widths {widths}"

    if len(widths) > n:
        raise Violation("columns-length", msg())
    for w in widths:
        if w.__class__ is not int and not _is_int(w):
            raise Violation("columns-integer", msg())
        if w < 0:
            raise Violation("columns-non-negative", msg())
    if loose:
        return
    full = widths + [0] * (n - len(widths)) if len(widths) < n else widths
    nvis = 0
    total = 0
    wvis = []
    for i in range(n):
        w = full[i]
        k, a = children[i]
        if k != "weight":
            if w != 0 and w != a:
                raise Violation("columns-own-size-or-nothing", msg())
        elif w > 0:
            wvis.append(i)
        if w > 0:
            nvis += 1
            total += w
    kf, af = children[focus]
    own = af if kf != "weight" else mw
    if 0 < own <= maxcol and full[focus] <= 0:
        raise Violation("columns-focus-kept", msg() + f" (focus column alone needs {own})")
    if nvis > 1:
        total += d * (nvis - 1)
    if total > maxcol:
        raise Violation("columns-never-over", msg() + f" (columns + dividers = {total})")
    if nvis < n:
        _stat("columns:dropped")
    if wvis:
        if total != maxcol:
            if total < maxcol - d * zero_packed:
                raise Violation("columns-filled-when-weighted", msg() + f" (columns + dividers = {total})")
            _stat("columns:zero-width-pack-slack")
        rem = _check_shares("columns", [wint[i] for i in wvis], [full[i] for i in wvis], mw, msg)
        if rem is None:
            _stat("columns:min_width-intervenes")
        elif rem:
            _stat("columns:remainder")


def _columns_prepare(children):
    widx = [i for i, (k, a) in enumerate(children) if k == "weight" and a > 0]
    wint = dict(zip(widx, _int_weights([children[i][1] for i in widx])))
    zero_packed = sum(1 for k, a in children if k == "pack" and a == 0)
    return wint, zero_packed


@_guarded
def check_columns(case):
    children = [tuple(c) for c in case["children"]]
    d, mw, focus = case["d"], case["mw"], case["focus"]
    lo, hi = case["maxcol"]
    mode = case.get("mode", "flow")
    boxflags = set(case.get("box", ()))
    render = bool(case.get("render"))
    maxrow = case.get("maxrow", 3)
    n = len(children)
    spells = _spells_of(case, n)
    resize = _resize_of(case, children)  # see RESIZE below
    note = f" spelled {case['spell']}" if case.get("spell") else ""
    log = []
    probes = []
    for i, (k, a) in enumerate(children):
        glyph = chr(ord("a") + i)
        if k == "pack":
            if mode == "box" or i in boxflags:
                raise Discard()  # PACK BOX is documented as unsupported
            p = Probe(i, log, [FIXED], glyph, fixed=(a, 1 + i % 2))
        elif mode == "box" or i in boxflags:
            p = Probe(i, log, [BOX], glyph)
        else:
            p = Probe(i, log, [FLOW], glyph, nrows=1 + i % 3)
        probes.append(p)
    cols = _build_container(urwid.Columns, children, probes, spells, focus, boxflags, dividechars=d, min_width=mw)
    if cols.focus_position != focus:
        raise Violation("columns-focus-position", f"focus_column={focus} gave focus_position {cols.focus_position}")
    sizing = cols.sizing()
    if (BOX if mode == "box" else FLOW) not in sizing:
        raise Discard()
    _stat("cfg:columns", hi - lo + 1)
    keep = []  # canvases of earlier drawings stay referenced, as a screen keeps the last one

    def change(which):
        amounts = {i: (new if which == "new" else old) for i, old, new in resize}
        for i, amount in amounts.items():
            if children[i][0] == "pack":
                probes[i].fixed = (amount, probes[i].fixed[1])
                probes[i]._invalidate()
            else:
                cols.contents[i] = (probes[i], cols.options(children[i][0], amount, i in boxflags))
        return [(k, amounts.get(j, a)) for j, (k, a) in enumerate(children)]

    def layout(children, maxcol, phase):
        loose = _columns_loose(children)
        wint, zero_packed = _columns_prepare(children)
        note2 = note + phase
        size = (maxcol,) if mode == "flow" else (maxcol, maxrow)
        widths = list(cols.column_widths(size, False))
        _columns_oracle(children, wint, zero_packed, loose, d, mw, focus, maxcol, widths, note2)
        if n > 1:
            # the same long-lived widget after a focus change at the same width (and back): the partition is a
            # function of the options, the focus and the size, not of what was laid out before
            f2 = (focus + 1) % n
            cols.focus_position = f2
            _columns_oracle(children, wint, zero_packed, loose, d, mw, f2, maxcol, list(cols.column_widths(size, False)), note2)
            cols.focus_position = focus
            again = list(cols.column_widths(size, False))
            if again != widths:
                raise Violation("columns-widths-depend-on-history",
                                f"children={children}{note2} dividechars={d} min_width={mw} maxcol={maxcol}: widths {widths} with focus "
                                f"{focus}, {again} after moving the focus to {f2} and back")
        if not render:
            return
        _stat("cfg:columns-render")
        msg = f"children={children}{note2} dividechars={d} min_width={mw} focus={focus} box={sorted(boxflags)} size={size}"
        w2, heights, args = cols.get_column_sizes(size, False)
        if list(w2) != widths:
            raise Violation("columns-sizes-agree", f"{msg}: column_widths {widths}, get_column_sizes {list(w2)}")
        if not (len(heights) == len(args) == len(widths)):
            raise Violation("columns-sizes-agree", f"{msg}: widths {widths}, heights {heights}, sizes {args}")
        for i, (w, h, arg) in enumerate(zip(widths, heights, args)):
            if not _is_int(h) or h < 0 or any((not _is_int(v)) or v < 0 for v in arg):
                raise Violation("negative-dimension", f"{msg}: get_column_sizes heights {heights} sizes {args}")
            if children[i][0] == "pack":
                ok = tuple(arg) == ()
            elif mode == "box":
                ok = tuple(arg) == (w, maxrow)
            elif i in boxflags:
                ok = len(arg) == 2 and arg[0] == w
            else:
                ok = tuple(arg) == (w,)
            if not ok:
                raise Violation("columns-child-size", f"{msg}: column {i} of width {w} gets render size {arg!r}")
        del log[:]
        if not phase:
            urwid.CanvasCache.clear()
        canv = cols.render(size, False)
        keep.append(canv)
        rendered = {}
        for name, what, sz in log:
            if what == "render":
                rendered.setdefault(name, []).append(sz)
        if phase and not rendered and any(w > 0 for w in widths):
            # the children changed since the last drawing at this size, yet no child was drawn again
            raise Violation("columns-not-redrawn", f"{msg}: render() drew no child again")
        for i in range(n):
            w = widths[i] if i < len(widths) else 0
            got = rendered.get(i, [])
            if w > 0:
                if got != [tuple(args[i])]:
                    raise Violation(
                        "columns-child-size", f"{msg}: column {i} (width {w}, size {args[i]!r}) was rendered with {got}"
                    )
            elif got:
                raise Violation("columns-hidden-not-rendered", f"{msg}: hidden column {i} was rendered with {got}")
        if canv.cols() != maxcol:
            raise Violation("columns-canvas-width", f"{msg}: canvas is {canv.cols()} columns wide")
        if loose or canv.rows() == 0:
            # (a flow Columns whose only visible columns are box_columns has no height information and
            # renders zero rows; the statement says nothing about heights)
            return
        row0 = _rows_of(canv)[0]
        runs = [(g, len(list(grp))) for g, grp in itertools.groupby(row0)]
        pos, seq = 0, []
        for g, ln in runs:
            if g != " ":
                seq.append((g, pos, ln))
            pos += ln
        want = [(chr(ord("a") + i), widths[i]) for i in range(len(widths)) if widths[i] > 0]
        if [(g, ln) for g, _p, ln in seq] != want:
            raise Violation("columns-render-layout", f"{msg}: widths {widths} but first row is {row0!r}")
        for (_g1, p1, l1), (_g2, p2, _l2) in zip(seq, seq[1:]):
            if p2 - (p1 + l1) != d:
                raise Violation("columns-render-dividers", f"{msg}: widths {widths} but first row is {row0!r}")

    for maxcol in range(lo, hi + 1):
        layout(children, maxcol, "")
        if resize:
            del keep[:-1]
            _stat("cfg:columns-resized")
            was = [list(x) for x in children]
            who = [r[0] for r in resize]
            layout(change("new"), maxcol, f" (before: {was}, then children {who} changed)")
            layout(change("old"), maxcol, f" (after children {who} changed to {[r[2] for r in resize]} and back)")


def _columns_nontrivial(case):
    ch, d, mw = case["children"], case["d"], case["mw"]
    lo, hi = case["maxcol"]
    static = [a if k != "weight" else mw for k, a in ch]
    if sum(static) + d * (len(ch) - 1) > lo:
        return True  # at the low end of the range something has to be dropped
    ws = [a for k, a in ch if k == "weight" and a]
    if len(ws) >= 2:
        ws = _int_weights(ws)
        fixed = sum(a for k, a in ch if k != "weight") + d * (len(ch) - 1)
        wsum = sum(ws)
        for m in range(lo, hi + 1):
            t = m - fixed
            if t > 0 and any((t * w) % wsum for w in ws):
                return True
    return False


def _columns_classes(case):
    kinds = sorted({k for k, _a in case["children"]})
    out = [f"columns:n={len(case['children'])}", "columns:kinds=" + "+".join(kinds)]
    if case.get("mode") == "box":
        out.append("columns:box-sized")
    if case.get("box"):
        out.append("columns:box_columns")
    if any(k == "weight" and isinstance(a, float) for k, a in case["children"]):
        out.append("columns:fractional-weight")
    if _columns_loose(case["children"]):
        out.append("columns:zero-amounts(no-negative-clause-only)")
    return out + _spell_classes("columns", case) + _resize_classes("columns", case, case["children"])


# ---------------------------------------------------------------------------------------------
# box Pile

# case: {"items": [[kind, amount], ...], "focus": i, "maxcol": c, "maxrow": [lo, hi], "render": bool}


def _pile_loose(items):
    return any(k in ("given", "weight") and a == 0 for k, a in items)


def _resize_of(case, children):
    """case key "resize": [[index, new amount], ...] - children whose amount changes while the container lives (see
    RESIZE below).  Returns the list of (index, old amount, new amount); a change to the same amount, of an unknown
    child, to a non-positive given size / weight or to a negative packed size is not a case."""
    out = []
    seen = set()
    for i, new in case.get("resize") or ():
        if not (_is_int(i) and 0 <= i < len(children)) or i in seen:
            raise Discard()
        seen.add(i)
        kind, old = children[i]
        if new == old or isinstance(new, bool) or not isinstance(new, (int, float)):
            raise Discard()
        if kind == "weight":
            if new <= 0:
                raise Discard()
        elif not _is_int(new) or new < (0 if kind == "pack" else 1):
            raise Discard()
        out.append((i, old, new))
    return out


# RESIZE - "every combination of given, packed and weighted children" holds for the combination the container has
# NOW: a packed child's "own size" is the size it asks for when the container is laid out, not the one it asked for
# the last time.  A case with a "resize" list lays the container out three times at every size of its range, on the
# same object, at the same focus, with the canvases of the earlier drawings still alive and the canvas cache not
# cleared: (A) as built; (B) after every listed child changed its amount; (A') after they changed back - the same
# oracle each time, against the children as they are at that moment.  A packed child changes by itself, as a Text
# whose text was set or an Edit that wraps does: its probe answers another rows() / pack() and calls only its own
# _invalidate() - the container is not told.  A given / weighted child is re-optioned through the container API:
# container.contents[i] = (same widget, container.options(kind, new amount[, box flag])).


@_guarded
def check_pile(case):
    items = [tuple(c) for c in case["items"]]
    focus, maxcol = case["focus"], case["maxcol"]
    lo, hi = case["maxrow"]
    render = bool(case.get("render"))
    n = len(items)
    if not any(k == "weight" and a > 0 for k, a in items):
        raise Discard()  # documented: a box Pile needs at least one weighted item
    spells = _spells_of(case, n)
    resize = _resize_of(case, items)
    note = f" spelled {case['spell']}" if case.get("spell") else ""
    log = []
    probes = []
    for i, (k, a) in enumerate(items):
        glyph = chr(ord("a") + i)
        probes.append(Probe(i, log, [FLOW], glyph, nrows=a) if k == "pack" else Probe(i, log, [BOX], glyph))
    pile = _build_container(urwid.Pile, items, probes, spells, focus)
    if pile.focus_position != focus:
        raise Violation("pile-focus-position", f"focus {focus} gave focus_position {pile.focus_position}")
    if BOX not in pile.sizing():
        raise Discard()
    _stat("cfg:pile", hi - lo + 1)
    keep = []  # canvases of earlier drawings stay referenced, as a screen keeps the last one

    def change(which):
        amounts = {i: (new if which == "new" else old) for i, old, new in resize}
        for i, amount in amounts.items():
            if items[i][0] == "pack":
                probes[i].nrows = amount
                probes[i]._invalidate()
            else:
                pile.contents[i] = (probes[i], pile.options(items[i][0], amount))
        return [(k, amounts.get(j, a)) for j, (k, a) in enumerate(items)]

    def layout(items, maxrow, phase):
        loose = _pile_loose(items)
        fixed = sum(a for k, a in items if k != "weight")
        widx = [i for i in range(n) if items[i][0] == "weight"]
        wint = [] if loose else _int_weights([items[i][1] for i in widx])
        size = (maxcol, maxrow)
        rows = pile.get_item_rows(size, False)

        def lazy(rows=rows, size=size):
            return f"items={items}{note}{phase} focus={focus} size={size}: rows {rows}"

        if len(rows) != n:
            raise Violation("pile-length", lazy())
        for r in rows:
            if r.__class__ is not int and not _is_int(r):
                raise Violation("pile-integer", lazy())
            if r < 0:
                raise Violation("pile-non-negative", lazy())
        if not loose:
            for (k, a), r in zip(items, rows):
                if k != "weight" and r != a:
                    raise Violation("pile-own-size", lazy())
            if fixed <= maxrow:
                if sum(rows) != maxrow:
                    raise Violation("pile-filled", lazy() + f" (sum {sum(rows)})")
                if _check_shares("pile", wint, [rows[i] for i in widx], -1, lazy, slack=1):
                    _stat("pile:remainder")
            else:
                _stat("pile:given-rows-do-not-fit")
                if any(rows[i] != 0 for i in widx):
                    raise Violation("pile-nothing-left", lazy() + " (given/pack rows alone exceed maxrow)")
        if not render:
            return
        _stat("cfg:pile-render")
        msg = lazy()
        _w, heights, args = pile.get_rows_sizes(size, False)
        if list(heights) != list(rows):
            raise Violation("pile-sizes-agree", f"{msg}, get_rows_sizes heights {list(heights)}")
        for i, ((k, _a), r, arg) in enumerate(zip(items, rows, args)):
            want = (maxcol,) if k == "pack" else (maxcol, r)
            if tuple(arg) != want:
                raise Violation("pile-child-size", f"{msg}: item {i} gets render size {arg!r}, expected {want!r}")
        del log[:]
        if not phase:
            urwid.CanvasCache.clear()
        canv = pile.render(size, False)
        keep.append(canv)
        rendered = {}
        for name, what, sz in log:
            if what == "render":
                rendered.setdefault(name, []).append(sz)
        if phase and not rendered and any(r > 0 for r in rows):
            # the children changed since the last drawing at this size, yet no child was drawn again
            raise Violation("pile-not-redrawn", f"{msg}: render() drew no child again")
        for i, ((k, _a), r) in enumerate(zip(items, rows)):
            got = rendered.get(i, [])
            want = [(maxcol,) if k == "pack" else (maxcol, r)] if r > 0 else []
            if got != want:
                raise Violation("pile-child-size", f"{msg}: item {i} rendered with {got}, expected {want}")
        if canv.rows() != maxrow or canv.cols() != maxcol:
            raise Violation("pile-canvas-size", f"{msg}: canvas {canv.cols()}x{canv.rows()}")
        if not loose and fixed <= maxrow:
            col0 = "".join(r[0] for r in _rows_of(canv))
            want = "".join(chr(ord("a") + i) * rows[i] for i in range(n))
            if col0 != want:
                raise Violation("pile-render-layout", f"{msg}: first column reads {col0!r}, expected {want!r}")

    for maxrow in range(lo, hi + 1):
        layout(items, maxrow, "")
        if resize:
            del keep[:-1]
            _stat("cfg:pile-resized")
            was = [list(x) for x in items]
            who = [r[0] for r in resize]
            layout(change("new"), maxrow, f" (before: {was}, then children {who} changed)")
            layout(change("old"), maxrow, f" (after children {who} changed to {[r[2] for r in resize]} and back)")


def _pile_nontrivial(case):
    items = case["items"]
    lo, hi = case["maxrow"]
    fixed = sum(a for k, a in items if k != "weight")
    if fixed > lo:
        return True
    ws = [a for k, a in items if k == "weight" and a]
    if len(ws) >= 2:
        ws = _int_weights(ws)
        wsum = sum(ws)
        for m in range(lo, hi + 1):
            if m > fixed and any(((m - fixed) * w) % wsum for w in ws):
                return True
    return False


def _pile_classes(case):
    kinds = sorted({k for k, _a in case["items"]})
    out = [f"pile:n={len(case['items'])}", "pile:kinds=" + "+".join(kinds)]
    if _pile_loose(case["items"]):
        out.append("pile:zero-amounts(no-negative-clause-only)")
    return out + _spell_classes("pile", case) + _resize_classes("pile", case, case["items"])


# ---------------------------------------------------------------------------------------------
# one axis of Padding / Filler / Overlay

_ALIGN_PCT = {"left": 0, "center": 50, "right": 100, "top": 0, "middle": 50, "bottom": 100}


def _pct(align):
    return _ALIGN_PCT.get(align[0], align[1])


def _requested(kind, amount, minimum, avail):
    """Candidate requested sizes (a relative size may round either way)."""
    if kind == "relative":
        ideal = Fraction(max(avail, 0) * amount, 100)
        cands = {math.floor(ideal), math.ceil(ideal)}
        if minimum is not None:
            cands = {max(c, minimum) for c in cands}
        return sorted(cands)
    return [amount]


def _text(msg):
    return msg() if callable(msg) else msg


def _axis_oracle(what, total, lo_m, hi_m, pct, reqs, child, lo, hi, msg, clip=False):
    """lo/hi: the margins urwid reports (before / after the child), child: the size the child has.
    reqs: candidate requested sizes (one of them has to explain the result)."""
    if not (_is_int(lo) and _is_int(hi)):
        raise Violation(f"{what}-integer", _text(msg))
    if lo + child + hi != total:
        raise Violation(f"{what}-fills-exactly", f"{_text(msg)}: {lo} + {child} + {hi} != {total}")
    if not clip and (lo < 0 or hi < 0 or child < 0):
        raise Violation(f"{what}-non-negative", f"{_text(msg)}: margins {lo},{hi} child {child}")
    avail = total - lo_m - hi_m
    why = []
    for req in reqs:
        if req <= avail:
            if child != req:
                why.append(("requested-size", f"requested {req} fits in {avail} but the child has {child}"))
                continue
            if lo < lo_m or hi < hi_m:
                why.append(("margins-kept", f"requested {req} fits but fixed margins {lo_m},{hi_m} became {lo},{hi}"))
                continue
            spare = avail - req
            if abs((lo - lo_m) - spare * pct / 100) >= 1 - EPS:
                why.append(("alignment", f"spare {spare} at {pct}%: {lo - lo_m} before and {hi - hi_m} after the child"))
                continue
            return "fits" if (spare * pct) % 100 == 0 else "fits-rounded"
        if clip:
            return "clipped"  # the child keeps its own size and is cut; fills-exactly was checked
        if max(avail, 0) <= child <= min(req, total):
            return "does-not-fit"
        why.append(("remaining-space",
                    f"requested {req} does not fit in {avail}; child {child} outside [{max(avail, 0)}, {min(req, total)}]"))
    raise Violation(f"{what}-{why[0][0]}", f"{_text(msg)}: " + "; ".join(w for _c, w in why))


def _align_arg(a):
    return a[0] if a[0] != "relative" else ("relative", a[1])


def _size_arg(s):
    kind, amount = s
    if kind == "given":
        return amount
    if kind == "relative":
        return ("relative", amount)
    return kind  # "pack" / "clip"


# case (lrpad / tbfill): {"total": [lo, hi], "align": [type, pct], "size": [kind, amount], "min": m|None,
#                         "lo": margin before, "hi": margin after}


def _check_calc(case, vertical):
    lo_t, hi_t = case["total"]
    align, (kind, amount), minimum = case["align"], case["size"], case["min"]
    lo_m, hi_m = case["lo"], case["hi"]
    if vertical:
        at, aa = normalize_valign(_align_arg(align), ValueError)
        fn, what = calculate_top_bottom_filler, "filler-calc"
    else:
        at, aa = normalize_align(_align_arg(align), ValueError)
        fn, what = calculate_left_right_padding, "padding-calc"
    if kind == "clip":
        wt = urwid.WHSettings.CLIP
        wa = amount
    else:
        wt, wa = (normalize_height if vertical else normalize_width)(_size_arg((kind, amount)), ValueError)
    pct = _pct(align)
    _stat("cfg:" + what, hi_t - lo_t + 1)
    for total in range(lo_t, hi_t + 1):
        lo, hi = fn(total, at, aa, wt, wa, minimum, lo_m, hi_m)

        def msg(total=total, lo=lo, hi=hi):
            return f"{fn.__name__}({total}, {align}, {kind} {amount}, min={minimum}, {lo_m}, {hi_m}) = ({lo}, {hi})"

        if kind == "clip" and not vertical:
            res = _axis_oracle(what, total, lo_m, hi_m, pct, [amount], amount, lo, hi, msg, clip=True)
        else:
            # the filler never reports negative values (its doc comment): the child is total - lo - hi
            child = total - lo - hi if _is_int(lo) and _is_int(hi) else 0
            res = _axis_oracle(what, total, lo_m, hi_m, pct, _requested(kind, amount, minimum, total - lo_m - hi_m),
                               child, lo, hi, msg)
        _stat(f"{what}:{res}")


def check_lrpad(case):
    _check_calc(case, vertical=False)


def check_tbfill(case):
    _check_calc(case, vertical=True)


def _calc_nontrivial(case):
    lo_t, hi_t = case["total"]
    kind, amount = case["size"]
    pct = _pct(case["align"])
    for total in range(lo_t, hi_t + 1):
        avail = total - case["lo"] - case["hi"]
        req = _requested(kind, amount, case["min"], avail)[-1]
        if req > avail or ((avail - req) * pct) % 100:
            return True
    return False


def _calc_classes(case):
    return [f"calc:align={case['align'][0]}", f"calc:size={case['size'][0]}" + ("+min" if case["min"] is not None else "")]


# ---------------------------------------------------------------------------------------------
# Padding rendered with a probe child

# case: {"size": [maxcol] | [maxcol, maxrow], "align": [type, pct], "width": [kind, amount], "min": m|None,
#        "left": l, "right": r, "child": {"w": natural/fixed width, "h": rows, "area": a}}


def _model_canvas(cols, rows, fill, cw, ch, x0, y0):
    """cols x rows of `fill` with the cw x ch position pattern placed at (x0, y0), clipped."""
    out = []
    for y in range(rows):
        line = []
        for x in range(cols):
            cx, cy = x - x0, y - y0
            line.append(chr(_pattern_char(cx, cy)) if 0 <= cx < cw and 0 <= cy < ch else fill)
        out.append("".join(line))
    return out


@_guarded
def check_padding(case):
    size = tuple(case["size"])
    align, (kind, amount), minimum = case["align"], case["width"], case["min"]
    left, right, child = case["left"], case["right"], case["child"]
    maxcol = size[0]
    log = []
    if kind == "clip":
        if len(size) != 1:
            raise Discard()
        probe = Probe("c", log, [FIXED], fixed=(child["w"], child["h"]))
    elif kind == "pack":
        if len(size) != 1:
            raise Discard()
        probe = Probe("c", log, [FLOW, FIXED], fixed=(child["w"], child["h"]), nrows=child["h"], natural=child["w"])
    elif len(size) == 1:
        probe = Probe("c", log, [FLOW], nrows=child["h"], area=child.get("area", 0))
    else:
        probe = Probe("c", log, [BOX])
    pad = urwid.Padding(probe, _align_arg(align), _size_arg((kind, amount)), minimum, left, right)
    if (FLOW if len(size) == 1 else BOX) not in pad.sizing():
        raise Discard()
    urwid.CanvasCache.clear()
    msg = f"Padding(align={align}, width={kind} {amount}, min_width={minimum}, left={left}, right={right}) size={size}"
    lo, hi = pad.padding_values(size, False)
    del log[:]
    canv = pad.render(size, False)
    renders = [sz for _n, what, sz in log if what == "render"]
    packs = [sz for _n, what, sz in log if what == "pack" and len(sz) == 1]
    if len(renders) != 1:
        raise Violation("padding-child-rendered-once", f"{msg}: child render calls {renders}")
    msg += f": padding_values ({lo}, {hi}), child rendered with {renders[0]}"
    pct = _pct(align)
    if kind == "clip":
        cw, ch = probe.fixed
        if renders[0] != ():
            raise Violation("padding-child-size", msg)
        res = _axis_oracle("padding", maxcol, left, right, pct, [cw], cw, lo, hi, msg, clip=True)
    else:
        cw = renders[0][0]
        if kind == "pack":
            if not packs:
                raise Violation("padding-pack-asks-child", msg)
            # the child packs itself into the space beside the fixed margins (not below min_width): computed
            # here from the options, not read back from the size urwid passed to pack()
            reqs = [min(probe.natural, max(maxcol - left - right, minimum or 0))]
        else:
            reqs = _requested(kind, amount, minimum, maxcol - left - right)
        res = _axis_oracle("padding", maxcol, left, right, pct, reqs, cw, lo, hi, msg)
        if renders[0][1:] != size[1:]:
            raise Violation("padding-child-size", msg)
        ch = size[1] if len(size) == 2 else probe.rows_for(cw)
    _stat("padding:" + res)
    if canv.cols() != maxcol:
        raise Violation("padding-canvas-width", f"{msg}: canvas {canv.cols()} wide")
    if cw > 0 and ch > 0:
        want = _model_canvas(maxcol, canv.rows(), " ", cw, ch, lo, 0)
        if _rows_of(canv) != want:
            raise Violation("padding-position", f"{msg}: canvas {_rows_of(canv)} expected {want}")


def _axis_nontrivial(total, lo_m, hi_m, pct, kind, amount, minimum, child_size):
    avail = total - lo_m - hi_m
    if kind in ("pack", "clip"):
        req = child_size
    else:
        req = _requested(kind, amount, minimum, avail)[-1]
    return req > avail or bool(((avail - req) * pct) % 100)


def _padding_nontrivial(case):
    kind, amount = case["width"]
    return _axis_nontrivial(case["size"][0], case["left"], case["right"], _pct(case["align"]), kind, amount,
                            case["min"], case["child"]["w"])


def _padding_classes(case):
    return [f"padding:width={case['width'][0]}", f"padding:align={case['align'][0]}",
            "padding:box-size" if len(case["size"]) == 2 else "padding:flow-size"]


# ---------------------------------------------------------------------------------------------
# Filler rendered with a probe child

# case: {"size": [maxcol, maxrow], "valign": [type, pct], "height": [kind, amount], "min": m|None,
#        "top": t, "bottom": b, "child": {"h": rows, "area": a}}


@_guarded
def check_filler(case):
    maxcol, maxrow = case["size"]
    valign, (kind, amount), minimum = case["valign"], case["height"], case["min"]
    top, bottom, child = case["top"], case["bottom"], case["child"]
    log = []
    if kind == "pack":
        probe = Probe("c", log, [FLOW], nrows=child["h"], area=child.get("area", 0))
    else:
        probe = Probe("c", log, [BOX])
    fil = urwid.Filler(probe, _align_arg(valign), _size_arg((kind, amount)), minimum, top, bottom)
    if BOX not in fil.sizing():
        raise Discard()
    urwid.CanvasCache.clear()
    size = (maxcol, maxrow)
    msg = f"Filler(valign={valign}, height={kind} {amount}, min_height={minimum}, top={top}, bottom={bottom}) size={size}"
    lo, hi = fil.filler_values(size, False)
    del log[:]
    canv = fil.render(size, False)
    renders = [sz for _n, what, sz in log if what == "render"]
    if len(renders) != 1:
        raise Violation("filler-child-rendered-once", f"{msg}: child render calls {renders}")
    msg += f": filler_values ({lo}, {hi}), child rendered with {renders[0]}"
    pct = _pct(valign)
    if canv.rows() != maxrow or canv.cols() != maxcol:
        raise Violation("filler-canvas-size", f"{msg}: canvas {canv.cols()}x{canv.rows()}")
    if kind == "pack":
        if renders[0] != (maxcol,):
            raise Violation("filler-child-size", msg)
        ch = probe.rows_for(maxcol)
        if ch > maxrow:
            # a flow child taller than the Filler is cut; nothing to place
            if lo < 0 or hi < 0:
                raise Violation("filler-non-negative", msg)
            _stat("filler:flow-child-cut")
            return
        res = _axis_oracle("filler", maxrow, top, bottom, pct, [ch], ch, lo, hi, msg)
    else:
        if len(renders[0]) != 2 or renders[0][0] != maxcol:
            raise Violation("filler-child-size", msg)
        ch = renders[0][1]
        # min_height is documented as ignored for a given height
        res = _axis_oracle("filler", maxrow, top, bottom, pct,
                           _requested(kind, amount, minimum if kind == "relative" else None, maxrow - top - bottom),
                           ch, lo, hi, msg)
    _stat("filler:" + res)
    if ch > 0:
        want = _model_canvas(maxcol, maxrow, " ", maxcol, ch, 0, lo)
        if _rows_of(canv) != want:
            raise Violation("filler-position", f"{msg}: canvas {_rows_of(canv)} expected {want}")


def _filler_nontrivial(case):
    kind, amount = case["height"]
    maxcol, maxrow = case["size"]
    ch = case["child"]
    h = max(1, -(-ch.get("area", 0) // maxcol)) if ch.get("area") else ch["h"]
    return _axis_nontrivial(maxrow, case["top"], case["bottom"], _pct(case["valign"]), kind, amount, case["min"], h)


def _filler_classes(case):
    return [f"filler:height={case['height'][0]}", f"filler:valign={case['valign'][0]}"]


# ---------------------------------------------------------------------------------------------
# Overlay

# case: {"size": [maxcol, maxrow], "align", "width": [kind, amount], "valign", "height": [kind, amount],
#        "min_width", "min_height", "left", "right", "top", "bottom", "child": {"w", "h", "area"}}
# width pack -> fixed child (height must be pack too); height pack -> flow child; otherwise box child


@_guarded
def check_overlay(case):
    maxcol, maxrow = case["size"]
    align, (wk, wa), valign, (hk, ha) = case["align"], case["width"], case["valign"], case["height"]
    mnw, mnh = case["min_width"], case["min_height"]
    left, right, top, bottom, child = case["left"], case["right"], case["top"], case["bottom"], case["child"]
    log = []
    if wk == "pack":
        if hk != "pack":
            raise Discard()
        probe = Probe("c", log, [FIXED], fixed=(child["w"], child["h"]))
    elif hk == "pack":
        probe = Probe("c", log, [FLOW], nrows=child["h"], area=child.get("area", 0))
    else:
        probe = Probe("c", log, [BOX])
    ov = urwid.Overlay(probe, urwid.SolidFill("."), _align_arg(align), _size_arg((wk, wa)), _align_arg(valign),
                       _size_arg((hk, ha)), mnw, mnh, left, right, top, bottom)
    if BOX not in ov.sizing():
        raise Discard()
    urwid.CanvasCache.clear()
    size = (maxcol, maxrow)
    msg = (f"Overlay(align={align}, width={wk} {wa}, valign={valign}, height={hk} {ha}, min_width={mnw}, "
           f"min_height={mnh}, left={left}, right={right}, top={top}, bottom={bottom}) size={size}")
    lo, hi, tlo, thi = ov.calculate_padding_filler(size, False)
    tsize = tuple(ov.top_w_size(size, lo, hi, tlo, thi))
    msg += f": calculate_padding_filler ({lo}, {hi}, {tlo}, {thi}), top_w_size {tsize}"
    for v in tsize:
        if not _is_int(v) or v < 0:
            raise Violation("negative-dimension", msg)
    hp, vp = _pct(align), _pct(valign)
    if wk == "pack":
        cw, ch = probe.fixed
        if tsize != ():
            raise Violation("overlay-child-size", msg)
        res_h = _axis_oracle("overlay-columns", maxcol, left, right, hp, [cw], cw, lo, hi, msg, clip=True)
        res_v = _axis_oracle("overlay-rows", maxrow, top, bottom, vp, [ch], ch, tlo, thi, msg, clip=True)
    else:
        if len(tsize) != (1 if hk == "pack" else 2):
            raise Violation("overlay-child-size", msg)
        cw = tsize[0]
        res_h = _axis_oracle("overlay-columns", maxcol, left, right, hp,
                             _requested(wk, wa, mnw, maxcol - left - right), cw, lo, hi, msg)
        if hk == "pack":
            ch = probe.rows_for(cw)  # the rows the child really has at the width it is given
            res_v = _axis_oracle("overlay-rows", maxrow, top, bottom, vp, [ch], ch, tlo, thi, msg, clip=True)
        else:
            ch = tsize[1]
            res_v = _axis_oracle("overlay-rows", maxrow, top, bottom, vp,
                                 _requested(hk, ha, mnh if hk == "relative" else None, maxrow - top - bottom),
                                 ch, tlo, thi, msg)
    _stat("overlay:columns-" + res_h)
    _stat("overlay:rows-" + res_v)
    if cw == 0 or ch == 0:
        _stat("overlay:empty-child(not rendered)")
        return  # an empty top widget: nothing is shown, the statement is silent
    del log[:]
    canv = ov.render(size, False)
    renders = [sz for _n, what, sz in log if what == "render"]
    if renders != [tsize]:
        raise Violation("overlay-child-size", f"{msg}: child rendered with {renders}")
    if canv.rows() != maxrow or canv.cols() != maxcol:
        raise Violation("overlay-canvas-size", f"{msg}: canvas {canv.cols()}x{canv.rows()}")
    want = _model_canvas(maxcol, maxrow, ".", cw, ch, lo, tlo)
    if _rows_of(canv) != want:
        raise Violation("overlay-position", f"{msg}: canvas {_rows_of(canv)} expected {want}")


def _overlay_nontrivial(case):
    maxcol, maxrow = case["size"]
    wk, wa = case["width"]
    hk, ha = case["height"]
    ch = case["child"]
    return _axis_nontrivial(maxcol, case["left"], case["right"], _pct(case["align"]), wk, wa, case["min_width"],
                            ch["w"]) or _axis_nontrivial(maxrow, case["top"], case["bottom"], _pct(case["valign"]),
                                                         hk, ha, case["min_height"], ch["h"])


def _overlay_classes(case):
    out = [f"overlay:width={case['width'][0]},height={case['height'][0]}"]
    if case["height"][0] == "pack" and case["width"][0] != "pack" and case["child"].get("area"):
        out.append("overlay:flow-child-rows-depend-on-width")
    return out


# ---------------------------------------------------------------------------------------------
# GridFlow

# case: {"n": cells, "cw": cell width, "hsep", "vsep", "align": [type, pct], "focus": i, "maxcol": [lo, hi]}


@_guarded
def check_grid(case):
    n, cw, hsep, vsep, align, focus = case["n"], case["cw"], case["hsep"], case["vsep"], case["align"], case["focus"]
    lo, hi = case["maxcol"]
    log = []
    cells = [Probe(i, log, [FLOW], chr(ord("a") + i % 26)) for i in range(n)]
    gf = urwid.GridFlow(cells, cw, hsep, vsep, _align_arg(align), focus=focus)
    for maxcol in range(lo, hi + 1):
        _stat("cfg:grid")
        del log[:]
        urwid.CanvasCache.clear()
        msg = f"GridFlow({n} cells, cell_width={cw}, h_sep={hsep}, v_sep={vsep}, align={align}, focus={focus}) maxcol={maxcol}"
        canv = gf.render((maxcol,), False)
        width = min(cw, maxcol)
        rendered = {}
        for name, what, sz in log:
            if what == "render":
                rendered.setdefault(name, []).append(sz)
        for i in range(n):
            if rendered.get(i) != [(width,)]:
                raise Violation("grid-cell-width", f"{msg}: cell {i} rendered with {rendered.get(i)}, expected [({width},)]")
        if canv.cols() != maxcol:
            raise Violation("grid-canvas-width", f"{msg}: canvas {canv.cols()} wide")
        seq = []
        lines = _rows_of(canv)
        for line in lines:
            for g, grp in itertools.groupby(line):
                if g != " ":
                    seq.append((g, len(list(grp))))
        want = [(chr(ord("a") + i % 26), width) for i in range(n)]
        if seq != want:
            raise Violation("grid-reading-order", f"{msg}: canvas {lines}")
        if len([ln for ln in lines if ln.strip()]) > 1:
            _stat("grid:several-rows")


def _grid_nontrivial(case):
    n, cw, hsep = case["n"], case["cw"], case["hsep"]
    return n * cw + (n - 1) * hsep > case["maxcol"][0]


def _grid_classes(case):
    return [f"grid:n={case['n']}", f"grid:align={case['align'][0]}"]


# GridFlow histories: "the configured cell width" is the one in force when the grid is drawn, however it got
# there - constructor argument or a later assignment to .cell_width - and "every cell ... in reading order" is the
# current .contents, after cells were appended / inserted / removed / re-assigned.  One GridFlow object lives through
# the whole case (the canvas cache is NOT cleared between steps, as in a running program); after the constructor and
# after every op it is drawn at every size of the case and the same oracle as check_grid is applied to the model
# (cell names in order, cell width).  The oracle is silent about h_sep / v_sep / align (the statement is), so
# assigning them is only a perturbation; the grid always keeps at least one cell (the statement is about cells shown).
#
# case: {"n", "cw", "hsep", "vsep", "align", "focus", "sizes": [maxcol | None (fixed: render(()))...], "ops": [...]}
# ops (positions are taken modulo the current number of cells):
#   ["cw", k]  grid.cell_width = k          ["hsep", k] / ["vsep", k] / ["align", [type, pct]]  plain attributes
#   ["recw"]   grid.cell_width = the width it already has (an assignment of an equal value is still an assignment:
#              "Setting this value affects all cells")
#   ["own", pos, k, spell]  grid.contents[pos] = (the same widget, options naming k columns written as `spell`, one of
#              GRID_SPELLS_AMOUNT): the contents docstring - "number is the number of screen columns to allocate to
#              this cell" - lets a cell have a width of its own; the model keeps one configured width per cell, which
#              the next assignment to .cell_width (or the widget-only .cells setter) brings back to the common width
#   ["append", spell]  ["insert", pos, spell]   a new cell whose options are written as `spell` (GRID_SPELLS)
#   ["del", pos]       del grid.contents[pos]  (skipped when one cell is left)
#   ["focus", pos]     grid.focus_position = pos
#   ["reassign", r]    grid.contents = the current (widget, options) entries rotated by r (the same option objects
#                      handed back)          ["cells", r]  the same through the backwards-compatible .cells setter

GRID_SPELLS = ("options", "options-str", "options-amount", "tuple-str", "tuple-enum")
GRID_SPELLS_AMOUNT = GRID_SPELLS[2:]  # the spellings that write the width out
GRID_MAX_CELLS = 26  # one letter per cell, so that neighbouring cells never share a glyph


def _grid_options(gf, spell, cw):
    if spell == "options":
        return gf.options()
    if spell == "options-str":
        return gf.options("given")
    if spell == "options-amount":
        return gf.options(urwid.WHSettings.GIVEN, cw)
    if spell == "tuple-str":
        return ("given", cw)
    if spell == "tuple-enum":
        return (urwid.WHSettings.GIVEN, cw)
    raise Discard()


def _grid_draw(gf, log, names, widths, cw, hsep, size, msg):
    """widths: {cell name: configured width of that cell}; cw / hsep: the grid's current common cell width and h_sep
    (a fixed GridFlow is as wide as len(cells) common-width cells and their separators)"""
    _stat("cfg:grid-history")
    del log[:]
    fixed = size is None
    canv = gf.render(() if fixed else (size,), False)
    avail = len(names) * cw + (len(names) - 1) * hsep if fixed else size
    shown = {i: min(widths[i], avail) for i in names}
    for name, what, sz in log:
        # (a drawing answered from the canvas cache renders no cell again: the canvas clauses below still apply)
        if what == "render" and sz != (shown[name],):
            raise Violation("grid-cell-width", f"{msg}: cell {name} rendered with {sz}, expected ({shown[name]},)")
    if not fixed and canv.cols() != size:
        raise Violation("grid-canvas-width", f"{msg}: canvas {canv.cols()} wide")
    seq = []
    lines = _rows_of(canv)
    for line in lines:
        for g, grp in itertools.groupby(line):
            if g != " ":
                seq.append((g, len(list(grp))))
    want = [(chr(ord("a") + i), shown[i]) for i in names]
    if seq != want:
        raise Violation("grid-reading-order", f"{msg}: canvas {lines}, expected cells {want}")
    if len([ln for ln in lines if ln.strip()]) > 1:
        _stat("grid:several-rows")


@_guarded
def check_grid_hist(case):
    n, cw, hsep, vsep, align, focus = case["n"], case["cw"], case["hsep"], case["vsep"], case["align"], case["focus"]
    sizes, ops = case["sizes"], case["ops"]
    if not sizes or n < 1 or n + len(ops) > GRID_MAX_CELLS:
        raise Discard()
    urwid.CanvasCache.clear()
    log = []

    def cell(i):
        return Probe(i, log, [FLOW], chr(ord("a") + i))

    names = list(range(n))
    widgets = {i: cell(i) for i in names}
    widths = dict.fromkeys(names, cw)  # the configured width of every cell (the number in its options)
    gf = urwid.GridFlow([widgets[i] for i in names], cw, hsep, vsep, _align_arg(align), focus=focus)
    base = f"GridFlow({n} cells, cell_width={case['cw']}, h_sep={hsep}, v_sep={vsep}, align={align}, focus={focus})"
    done = []

    def draw_all():
        for size in sizes:
            _grid_draw(gf, log, names, widths, cw, hsep, size,
                       f"{base} after {done} size={'()' if size is None else (size,)}")

    draw_all()
    for op in ops:
        kind = op[0]
        if kind in ("cw", "recw"):
            k = op[1] if kind == "cw" else cw  # "recw": the value the grid already has is assigned again
            _stat("grid-op:cw(" + ("unchanged" if k == cw else "narrower" if k < cw else "wider")
                  + (", some cell had a width of its own)" if any(widths[i] != cw for i in names) else ")"))
            gf.cell_width = cw = k
            widths = dict.fromkeys(names, cw)  # "Setting this value affects all cells"
        elif kind == "hsep":
            gf.h_sep = hsep = op[1]
        elif kind == "vsep":
            gf.v_sep = op[1]
        elif kind == "align":
            gf.align = _align_arg(op[1])
        elif kind in ("append", "insert"):
            new = max(widgets) + 1
            widgets[new] = cell(new)
            widths[new] = cw
            entry = (widgets[new], _grid_options(gf, op[-1], cw))
            if kind == "append":
                gf.contents.append(entry)
                names.append(new)
            else:
                pos = op[1] % (len(names) + 1)
                gf.contents.insert(pos, entry)
                names.insert(pos, new)
        elif kind == "own":
            # one cell is given a width of its own through the container API: the entry at pos is replaced by the
            # same widget with options that name k columns
            _k, pos, k, spell = op
            if spell not in GRID_SPELLS_AMOUNT or k < 1:
                raise Discard()
            pos %= len(names)
            gf.contents[pos] = (widgets[names[pos]], _grid_options(gf, spell, k))
            widths[names[pos]] = k
        elif kind == "del":
            if len(names) == 1:
                _stat("grid-op:del-skipped(last cell)")
                continue
            pos = op[1] % len(names)
            del gf.contents[pos]
            del names[pos]
        elif kind == "focus":
            gf.focus_position = op[1] % len(names)
        elif kind in ("reassign", "cells"):
            r = op[1] % len(names)
            names = names[r:] + names[:r]
            if kind == "reassign":
                entries = list(gf.contents)
                gf.contents = entries[r:] + entries[:r]  # the same option tuples: every cell keeps its width
            else:
                gf.cells = [widgets[i] for i in names]  # widgets only: every cell gets the common width
                widths = dict.fromkeys(names, cw)
        else:
            raise Discard()
        if kind not in ("cw", "recw"):
            _stat("grid-op:" + kind)
        done.append(op)
        draw_all()


def _grid_hist_nontrivial(case):
    # the drawing depends on the history: the cell width is re-configured or the cells change, and a drawing
    # needs more than one row or is narrower than a cell
    changed = any(op[0] in ("cw", "recw", "own", "append", "insert", "del", "reassign", "cells") for op in case["ops"])
    widths = [case["cw"]] + [op[1] for op in case["ops"] if op[0] == "cw"] + [op[2] for op in case["ops"] if op[0] == "own"]
    n = case["n"]
    return changed and any(s is not None and n * w + (n - 1) * case["hsep"] > s for s in case["sizes"] for w in widths)


def _grid_hist_classes(case):
    kinds = sorted({op[0] for op in case["ops"]})
    return [f"grid-history:len={len(case['ops'])}"] + [f"grid-history:op={k}" for k in kinds]


SUBS = {
    "columns": check_columns,
    "pile": check_pile,
    "lrpad": check_lrpad,
    "tbfill": check_tbfill,
    "padding": check_padding,
    "filler": check_filler,
    "overlay": check_overlay,
    "grid": check_grid,
    "grid_hist": check_grid_hist,
}


# ---------------------------------------------------------------------------------------------
# enumerations

FRACTIONAL = 1.5
COL_FULL = [["given", g] for g in range(1, 7)] + [["pack", p] for p in range(0, 7)] + [["weight", w] for w in (1, 2, 3, 4, FRACTIONAL)]
COL_REDUCED = [["given", g] for g in (2, 5)] + [["pack", p] for p in (0, 3)] + [["weight", w] for w in (1, 2, FRACTIONAL)]
COL_SMALL = [["given", g] for g in (1, 4)] + [["pack", p] for p in (0, 3)] + [["weight", w] for w in (1, 2, FRACTIONAL)]
# no zero weights for Columns: the property quantifies over positively weighted children, and column_widths divides
# by the weight total (Columns([("weight", 0, w)]) raises ZeroDivisionError) - outside the domain, not a finding
COL_ZERO = [["given", 0], ["given", 2], ["pack", 0], ["pack", 2], ["weight", 1], ["weight", 2]]


def columns_cases(option_sets, maxcol=(1, 24)):
    """option_sets: {n_children: option list}"""
    for n, opts in sorted(option_sets.items()):
        for children in itertools.product(opts, repeat=n):
            for d in (0, 1, 2):
                for mw in (1, 2, 3):
                    for focus in range(n):
                        yield {"children": [list(c) for c in children], "d": d, "mw": mw, "focus": focus,
                               "maxcol": list(maxcol)}


def columns_render_cases(max_n, maxcol=(1, 14)):
    for n in range(1, max_n + 1):
        for children in itertools.product(COL_SMALL, repeat=n):
            has_pack = any(k == "pack" for k, _a in children)
            variants = [("flow", [])]
            variants += [("flow", [i]) for i in range(n) if children[i][0] != "pack" and n > 1]
            if not has_pack:
                variants.append(("box", []))
            for d in (0, 1, 2):
                for mw in (1, 2):
                    for focus in range(n):
                        for mode, box in variants:
                            yield {"children": [list(c) for c in children], "d": d, "mw": mw, "focus": focus,
                                   "maxcol": list(maxcol), "mode": mode, "box": box, "render": True}


def columns_zero_cases(max_n, maxcol=(1, 12)):
    for n in range(1, max_n + 1):
        for children in itertools.product(COL_ZERO, repeat=n):
            if not _columns_loose(children):
                continue
            for d in (0, 1):
                for mw in (1, 2):
                    for focus in range(n):
                        yield {"children": [list(c) for c in children], "d": d, "mw": mw, "focus": focus,
                               "maxcol": list(maxcol), "mode": "flow", "box": [], "render": True}


PILE_FULL = [["given", g] for g in range(1, 7)] + [["pack", p] for p in range(0, 7)] + [["weight", w] for w in (1, 2, 3, 4, FRACTIONAL)]
PILE_REDUCED = [["given", g] for g in (1, 3, 6)] + [["pack", p] for p in (0, 2, 5)] + [["weight", w] for w in (1, 2, 3, FRACTIONAL)]
PILE_SMALL = [["given", g] for g in (1, 4)] + [["pack", p] for p in (0, 3)] + [["weight", w] for w in (1, 2, FRACTIONAL)]
PILE_ZERO = [["given", 0], ["given", 2], ["pack", 0], ["pack", 2], ["weight", 0], ["weight", 1], ["weight", 2]]


def pile_cases(option_sets, maxrow=(1, 24), render=False, zero=False):
    for n, opts in sorted(option_sets.items()):
        for items in itertools.product(opts, repeat=n):
            if not any(k == "weight" and a > 0 for k, a in items):
                continue
            if zero and not _pile_loose(items):
                continue
            for focus in sorted({0, n - 1}):
                case = {"items": [list(c) for c in items], "focus": focus, "maxcol": 3, "maxrow": list(maxrow)}
                if render:
                    case["render"] = True
                yield case


def spelled(cases, key, uniform_upto=99):
    """every case of the stream under every other spelling: each of the seven non-default spellings for all
    children (lists of at most `uniform_upto` children), and (two children or more) one mixed assignment -
    child i spelled SPELLS[(i + r) % 8], r advancing by one with every such case, so that neighbouring children
    are spelled differently and, over the stream, every spelling is met at every position"""
    r = 0
    for case in cases:
        n = len(case[key])
        variants = list(SPELLS[1:]) if n <= uniform_upto else []
        if n > 1:
            variants.append([SPELLS[(i + r) % len(SPELLS)] for i in range(n)])
            r += 1
        for sp in variants:
            c = dict(case)
            c["spell"] = sp
            yield c


RESIZE_PACK = (0, 1, 3, 5)  # packed sizes a packed child changes to (empty, one, the middle of the set, beyond it)
RESIZE_OTHER = {"given": (2, 5), "weight": (3, 1)}  # a given / weighted child is re-optioned to the first one that differs


def resized(cases, key, others=True):
    """every case of the stream once per child that changes its amount while the container lives (case key
    "resize", see RESIZE at check_pile): each packed child alone to every other size of RESIZE_PACK; all packed
    children together (two or more: child j to RESIZE_PACK[j % 4], or the next one if that is its size); and
    (others) each given / weighted child alone, re-optioned through .contents to one other amount"""
    for case in cases:
        kids = case[key]
        variants = []
        packed = [i for i, (k, _a) in enumerate(kids) if k == "pack"]
        for i, (k, a) in enumerate(kids):
            if k == "pack":
                variants += [[[i, x]] for x in RESIZE_PACK if x != a]
            elif others and a:
                variants.append([[i, next(x for x in RESIZE_OTHER[k] if x != a)]])
        if len(packed) > 1:
            variants.append([[i, next(x for x in RESIZE_PACK[j % 4:] + RESIZE_PACK if x != kids[i][1])]
                             for j, i in enumerate(packed)])
        for v in variants:
            c = dict(case)
            c["resize"] = v
            yield c


def columns_spelled_cases(max_n, uniform_upto, maxcol=(1, 14)):
    """the render grid of columns_render_cases at dividechars 1, min_width 2, under every spelling"""
    return spelled((c for c in columns_render_cases(max_n, maxcol) if c["d"] == 1 and c["mw"] == 2), "children",
                   uniform_upto)


ALIGNS_H = [["left", 0], ["center", 0], ["right", 0]] + [["relative", p] for p in range(0, 101, 5)]
ALIGNS_V = [["top", 0], ["middle", 0], ["bottom", 0]] + [["relative", p] for p in range(0, 101, 5)]
SIZE_KINDS = ([(["given", g], None) for g in range(1, 13)]
              + [(["relative", p], m) for p in range(0, 101, 5) for m in (None, 1, 3, 6)])


def calc_cases(vertical, total=(1, 30)):
    kinds = list(SIZE_KINDS)
    if not vertical:
        kinds += [(["clip", g], None) for g in range(1, 13)]
    for align in (ALIGNS_V if vertical else ALIGNS_H):
        for size, minimum in kinds:
            for lo in range(6):
                for hi in range(6):
                    yield {"total": list(total), "align": align, "size": size, "min": minimum, "lo": lo, "hi": hi}


ALIGNS_H_FEW = [["left", 0], ["center", 0], ["right", 0], ["relative", 30], ["relative", 85]]
ALIGNS_V_FEW = [["top", 0], ["middle", 0], ["bottom", 0], ["relative", 30], ["relative", 85]]


def padding_cases(maxcols):
    widths = [(["given", g], None) for g in (1, 3, 8)] + [(["relative", p], m) for p in (0, 35, 80, 100) for m in (None, 4)]
    widths += [(["pack", None], None), (["pack", None], 4), (["clip", None], None)]
    for maxcol in maxcols:
        for align in ALIGNS_H_FEW:
            for width, minimum in widths:
                for left in (0, 1, 4):
                    for right in (0, 2):
                        for child in ({"w": 2, "h": 1, "area": 0}, {"w": 7, "h": 2, "area": 9}):
                            sizes = [[maxcol]]
                            if width[0] in ("given", "relative"):
                                sizes.append([maxcol, 2])
                            for size in sizes:
                                yield {"size": size, "align": align, "width": width, "min": minimum, "left": left,
                                       "right": right, "child": child}


def filler_cases(maxrows):
    heights = [(["given", g], None) for g in (1, 3, 8)] + [(["relative", p], m) for p in (0, 35, 80, 100) for m in (None, 4)]
    heights += [(["pack", None], None)]
    for maxrow in maxrows:
        for valign in ALIGNS_V_FEW:
            for height, minimum in heights:
                for top in (0, 1, 4):
                    for bottom in (0, 2):
                        for child in ({"h": 1, "area": 0}, {"h": 5, "area": 0}, {"h": 1, "area": 9}):
                            if height[0] != "pack" and child["h"] != 1:
                                continue
                            if height[0] != "pack" and child["area"]:
                                continue
                            yield {"size": [4, maxrow], "valign": valign, "height": height, "min": minimum, "top": top,
                                   "bottom": bottom, "child": child}


def overlay_cases(sizes):
    hal = [["left", 0], ["center", 0], ["right", 0], ["relative", 30]]
    val = [["top", 0], ["middle", 0], ["bottom", 0], ["relative", 70]]
    widths = [(["given", 2], None), (["given", 7], None), (["relative", 40], None), (["relative", 80], 5), (["pack", None], None)]
    heights = [(["given", 1], None), (["given", 6], None), (["relative", 50], None), (["relative", 90], 4), (["pack", None], None)]
    margins = [(0, 0, 0, 0), (1, 0, 0, 2), (2, 3, 1, 1)]
    children = [{"w": 3, "h": 2, "area": 0}, {"w": 9, "h": 5, "area": 12}]
    for maxcol, maxrow in sizes:
        for align in hal:
            for valign in val:
                for width, mnw in widths:
                    for height, mnh in heights:
                        if width[0] == "pack" and height[0] != "pack":
                            continue
                        for left, right, top, bottom in margins:
                            for child in children:
                                yield {"size": [maxcol, maxrow], "align": align, "width": width, "valign": valign,
                                       "height": height, "min_width": mnw, "min_height": mnh, "left": left, "right": right,
                                       "top": top, "bottom": bottom, "child": child}


def grid_cases(max_n, maxcol=(1, 30)):
    for n in range(1, max_n + 1):
        for cw in range(1, 7):
            for hsep in (0, 1, 2):
                for vsep in (0, 1):
                    for align in (["left", 0], ["center", 0], ["relative", 80]):
                        for focus in sorted({0, n - 1}):
                            yield {"n": n, "cw": cw, "hsep": hsep, "vsep": vsep, "align": align, "focus": focus,
                                   "maxcol": list(maxcol)}


GRID_OPS = (
    [["cw", k] for k in (1, 3, 4, 6)]
    + [["hsep", 0], ["hsep", 2], ["vsep", 1], ["align", ["right", 0]]]
    + [["append", sp] for sp in GRID_SPELLS]
    + [["insert", 0, "options"], ["insert", 1, "tuple-enum"]]
    + [["del", 0], ["del", -1], ["focus", 0], ["focus", -1], ["reassign", 1], ["cells", 1]]
    + [["recw"], ["own", 0, 1, "options-amount"], ["own", -1, 5, "tuple-str"]]
)


def grid_hist_cases(ns, sizes=(5, 13, None)):
    """every history of one or two ops of GRID_OPS (every ordered pair, an op twice included) on every small grid:
    n cells, cell width 2 / 4, h_sep 0 / 1, focus first / last; v_sep and align rotate.  Drawn after every step at a
    width below the widest cell width, a width that needs several rows, and as a fixed widget."""
    r = 0
    hists = [[a] for a in GRID_OPS] + [[a, b] for a in GRID_OPS for b in GRID_OPS]
    for n in ns:
        for cw in (2, 4):
            for hsep in (0, 1):
                for focus in sorted({0, n - 1}):
                    for ops in hists:
                        r += 1
                        yield {"n": n, "cw": cw, "hsep": hsep, "vsep": r % 2,
                               "align": (["left", 0], ["center", 0], ["relative", 80])[r % 3], "focus": focus,
                               "sizes": list(sizes), "ops": ops}


# ---------------------------------------------------------------------------------------------
# Hypothesis strategies ("beyond": longer lists, larger sizes, arbitrary percentages and weights)

_weight = st.one_of(st.integers(1, 12), st.sampled_from([0.5, 1.5, 2.5, 0.25, 7.5]))


@st.composite
def _spell_st(draw, n):
    """None (constructor tuples) / one spelling for every child / one spelling per child"""
    how = draw(st.integers(0, 3))
    if how == 0:
        return None
    if how == 1:
        return draw(st.sampled_from(SPELLS))
    return draw(st.lists(st.sampled_from(SPELLS), min_size=n, max_size=n))


def _child_option(allow_pack):
    opts = [st.tuples(st.just("given"), st.integers(1, 40)), st.tuples(st.just("weight"), _weight)]
    if allow_pack:
        opts.append(st.tuples(st.just("pack"), st.integers(0, 40)))
    return st.one_of(opts).map(list)


@st.composite
def _resize_st(draw, kids):
    """nothing (half of the cases) or 1..3 children that change their amount while the container lives"""
    if draw(st.booleans()):
        return []
    idx = draw(st.lists(st.integers(0, len(kids) - 1), min_size=1, max_size=3, unique=True))
    out = []
    for i in sorted(idx):
        kind, old = kids[i]
        new = draw(_weight if kind == "weight" else st.integers(0 if kind == "pack" else 1, 40))
        if new != old:
            out.append([i, new])
    return out


@st.composite
def _columns_case(draw):
    mode = draw(st.sampled_from(["flow", "flow", "box"]))
    children = draw(st.lists(_child_option(mode == "flow"), min_size=1, max_size=8))
    n = len(children)
    box = []
    if mode == "flow" and n > 1 and draw(st.booleans()):
        cand = [i for i in range(n) if children[i][0] != "pack"]
        box = sorted(set(draw(st.lists(st.sampled_from(cand), max_size=2)))) if cand else []
    maxcol = draw(st.one_of(st.integers(1, 40), st.integers(1, 200)))
    return {"children": children, "d": draw(st.integers(0, 4)), "mw": draw(st.integers(1, 6)),
            "focus": draw(st.integers(0, n - 1)), "maxcol": [maxcol, maxcol], "mode": mode, "box": box,
            "maxrow": draw(st.integers(1, 5)), "render": True, "spell": draw(_spell_st(n)),
            "resize": draw(_resize_st(children))}


@st.composite
def _pile_case(draw):
    opt = st.one_of(st.tuples(st.just("given"), st.integers(1, 30)), st.tuples(st.just("pack"), st.integers(0, 30)),
                    st.tuples(st.just("weight"), _weight), st.tuples(st.just("weight"), _weight)).map(list)
    items = draw(st.lists(opt, min_size=1, max_size=8).filter(lambda it: any(k == "weight" for k, _a in it)))
    maxrow = draw(st.one_of(st.integers(1, 40), st.integers(1, 200)))
    return {"items": items, "focus": draw(st.integers(0, len(items) - 1)), "maxcol": draw(st.integers(1, 10)),
            "maxrow": [maxrow, maxrow], "render": True, "spell": draw(_spell_st(len(items))),
            "resize": draw(_resize_st(items))}


def _align_st(names):
    return st.one_of(st.sampled_from([[n, 0] for n in names]), st.tuples(st.just("relative"), st.integers(0, 100)).map(list))


_minimum = st.one_of(st.none(), st.integers(1, 40))
_size_st = st.one_of(st.tuples(st.just("given"), st.integers(1, 220)), st.tuples(st.just("relative"), st.integers(0, 100))).map(list)


@st.composite
def _calc_case(draw, vertical):
    total = draw(st.one_of(st.integers(1, 40), st.integers(1, 200)))
    size = draw(_size_st if vertical else st.one_of(_size_st, st.tuples(st.just("clip"), st.integers(1, 220)).map(list)))
    return {"total": [total, total], "align": draw(_align_st(["top", "middle", "bottom"] if vertical else ["left", "center", "right"])),
            "size": size, "min": draw(_minimum) if size[0] == "relative" else None,
            "lo": draw(st.integers(0, 30)), "hi": draw(st.integers(0, 30))}


_child_st = st.fixed_dictionaries({"w": st.integers(1, 40), "h": st.integers(1, 12), "area": st.one_of(st.just(0), st.integers(1, 60))})


@st.composite
def _padding_case(draw):
    width = draw(st.one_of(st.tuples(st.just("given"), st.integers(1, 60)), st.tuples(st.just("relative"), st.integers(0, 100)),
                           st.just(("pack", None)), st.just(("clip", None))).map(list))
    maxcol = draw(st.integers(1, 80))
    size = [maxcol]
    if width[0] in ("given", "relative") and draw(st.booleans()):
        size = [maxcol, draw(st.integers(1, 6))]
    return {"size": size, "align": draw(_align_st(["left", "center", "right"])), "width": width,
            "min": draw(_minimum) if width[0] in ("relative", "pack") else None,
            "left": draw(st.integers(0, 12)), "right": draw(st.integers(0, 12)), "child": draw(_child_st)}


@st.composite
def _filler_case(draw):
    height = draw(st.one_of(st.tuples(st.just("given"), st.integers(1, 60)), st.tuples(st.just("relative"), st.integers(0, 100)),
                            st.just(("pack", None))).map(list))
    return {"size": [draw(st.integers(1, 12)), draw(st.integers(1, 80))], "valign": draw(_align_st(["top", "middle", "bottom"])),
            "height": height, "min": draw(_minimum) if height[0] == "relative" else None,
            "top": draw(st.integers(0, 12)), "bottom": draw(st.integers(0, 12)), "child": draw(_child_st)}


@st.composite
def _overlay_case(draw):
    width = draw(st.one_of(st.tuples(st.just("given"), st.integers(1, 50)), st.tuples(st.just("relative"), st.integers(0, 100)),
                           st.just(("pack", None))).map(list))
    if width[0] == "pack":
        height = ["pack", None]
    else:
        height = draw(st.one_of(st.tuples(st.just("given"), st.integers(1, 40)), st.tuples(st.just("relative"), st.integers(0, 100)),
                                st.just(("pack", None))).map(list))
    return {"size": [draw(st.integers(1, 60)), draw(st.integers(1, 40))],
            "align": draw(_align_st(["left", "center", "right"])), "width": width,
            "valign": draw(_align_st(["top", "middle", "bottom"])), "height": height,
            "min_width": draw(_minimum) if width[0] == "relative" else None,
            "min_height": draw(_minimum) if height[0] == "relative" else None,
            "left": draw(st.integers(0, 8)), "right": draw(st.integers(0, 8)),
            "top": draw(st.integers(0, 8)), "bottom": draw(st.integers(0, 8)), "child": draw(_child_st)}


@st.composite
def _grid_case(draw):
    n = draw(st.integers(1, 12))
    maxcol = draw(st.integers(1, 120))
    return {"n": n, "cw": draw(st.integers(1, 20)), "hsep": draw(st.integers(0, 4)), "vsep": draw(st.integers(0, 3)),
            "align": draw(_align_st(["left", "center", "right"])), "focus": draw(st.integers(0, n - 1)),
            "maxcol": [maxcol, maxcol]}


@st.composite
def _grid_hist_case(draw):
    n = draw(st.integers(1, 10))
    pos = st.integers(-3, 12)
    spell = st.sampled_from(GRID_SPELLS)
    op = st.one_of(
        st.tuples(st.just("cw"), st.integers(1, 20)),
        st.tuples(st.just("cw"), st.integers(1, 20)),
        st.tuples(st.just("hsep"), st.integers(0, 4)),
        st.tuples(st.just("vsep"), st.integers(0, 3)),
        st.tuples(st.just("align"), _align_st(["left", "center", "right"])),
        st.tuples(st.just("append"), spell),
        st.tuples(st.just("insert"), pos, spell),
        st.tuples(st.just("del"), pos),
        st.tuples(st.just("focus"), pos),
        st.tuples(st.sampled_from(["reassign", "cells"]), pos),
        st.just(("recw",)),
        st.tuples(st.just("own"), pos, st.integers(1, 20), st.sampled_from(GRID_SPELLS_AMOUNT)),
    ).map(list)
    size = st.one_of(st.integers(1, 40), st.integers(1, 120), st.none())
    return {"n": n, "cw": draw(st.integers(1, 20)), "hsep": draw(st.integers(0, 4)), "vsep": draw(st.integers(0, 3)),
            "align": draw(_align_st(["left", "center", "right"])), "focus": draw(st.integers(0, n - 1)),
            "sizes": draw(st.lists(size, min_size=1, max_size=3)), "ops": draw(st.lists(op, min_size=1, max_size=8))}


# ---------------------------------------------------------------------------------------------
# the campaign


def shard(ctx):
    quick = ctx.tier == "quick"
    steps = []

    def sweep(sub, cases, nt, cl, name):
        steps.append(lambda: ctx.sweep(sub, cases, nontrivial=nt, classify=cl, exhaustive_name=name))

    def given(sub, strategy, n_quick, n_thorough, nt, cl):
        steps.append(lambda: ctx.given(sub, strategy, ctx.scale(n_quick, n_thorough), nontrivial=nt, classify=cl))

    if quick:
        col_sets = {1: COL_FULL, 2: COL_FULL, 3: COL_FULL, 4: COL_REDUCED}
        col_name = "column_widths: <=3 children full option set, 4 children reduced set, maxcol 1..24"
        pile_sets = {1: PILE_FULL, 2: PILE_FULL, 3: PILE_FULL, 4: PILE_FULL}
        pile_name = "Pile.get_item_rows: <=4 items full option set, maxrow 1..24"
    else:
        col_sets = {1: COL_FULL, 2: COL_FULL, 3: COL_FULL, 4: COL_FULL, 5: COL_SMALL}
        col_name = "column_widths: <=4 children full option set, 5 children small set, maxcol 1..24"
        pile_sets = {1: PILE_FULL, 2: PILE_FULL, 3: PILE_FULL, 4: PILE_FULL, 5: PILE_REDUCED}
        pile_name = "Pile.get_item_rows: <=4 items full option set, 5 items reduced set, maxrow 1..24"

    sweep("lrpad", calc_cases(False), _calc_nontrivial, _calc_classes, "calculate_left_right_padding, sizes 1..30")
    sweep("tbfill", calc_cases(True), _calc_nontrivial, _calc_classes, "calculate_top_bottom_filler, sizes 1..30")
    sweep("overlay", overlay_cases([(c, r) for c in ctx.scale((4, 9, 14), (3, 4, 7, 9, 14, 20)) for r in ctx.scale((3, 8), (2, 3, 5, 8, 13))]),
          _overlay_nontrivial, _overlay_classes, "Overlay with probe child, reduced grid")
    sweep("padding", padding_cases(ctx.scale(range(1, 16, 2), range(1, 31))), _padding_nontrivial, _padding_classes,
          "Padding with probe child, reduced grid")
    sweep("filler", filler_cases(ctx.scale(range(1, 16, 2), range(1, 31))), _filler_nontrivial, _filler_classes,
          "Filler with probe child, reduced grid")
    sweep("columns", columns_zero_cases(ctx.scale(3, 4)), _columns_nontrivial, _columns_classes,
          "Columns with zero weights / zero given widths (no-negative-dimension clause), rendered")
    sweep("pile", pile_cases({n: PILE_ZERO for n in range(1, ctx.scale(3, 4) + 1)}, maxrow=(1, 10), render=True, zero=True),
          _pile_nontrivial, _pile_classes, "Pile with zero weights / zero given heights (no-negative-dimension clause), rendered")
    sweep("columns", columns_render_cases(ctx.scale(3, 4)), _columns_nontrivial, _columns_classes,
          "Columns get_column_sizes + render with probes (flow, box_columns, box-sized), small option set")
    sweep("pile", pile_cases({n: PILE_SMALL for n in range(1, ctx.scale(3, 4) + 1)}, maxrow=(1, 14), render=True),
          _pile_nontrivial, _pile_classes, "Pile get_rows_sizes + render with probes, small option set")
    sweep("pile", spelled(pile_cases({n: ctx.scale(PILE_SMALL, PILE_REDUCED) for n in range(1, ctx.scale(3, 4) + 1)},
                                     maxrow=(1, 14), render=True), "items"),
          _pile_nontrivial, _pile_classes,
          "Pile get_item_rows + get_rows_sizes + render, small (thorough: reduced) option set, every spelling of the "
          "options + 1 mixed")
    sweep("columns", columns_spelled_cases(ctx.scale(3, 4), ctx.scale(2, 3)), _columns_nontrivial, _columns_classes,
          "Columns column_widths + get_column_sizes + render, small option set, dividechars 1, min_width 2, every "
          "spelling of the options (quick <=2, thorough <=3 children) + 1 mixed (all lengths)")
    sweep("grid", grid_cases(ctx.scale(5, 7)), _grid_nontrivial, _grid_classes, "GridFlow cells<=7, cell width 1..6, maxcol 1..30")

    sweep("grid_hist", grid_hist_cases(ctx.scale((1, 3, 5), (1, 2, 3, 5, 7))), _grid_hist_nontrivial, _grid_hist_classes,
          "GridFlow histories: every 1- and 2-op history of 24 ops (cell_width / h_sep / v_sep / align assignment, "
          "cell_width assigned the value it has, one cell given a width of its own through .contents, "
          "append / insert in every options spelling, delete, focus, contents / cells re-assignment) on small grids, "
          "drawn after every step at maxcol 5, 13 and fixed")

    sweep("pile", resized(pile_cases({n: PILE_SMALL for n in range(1, ctx.scale(3, 4) + 1)}, maxrow=(1, 14), render=True), "items"),
          _pile_nontrivial, _pile_classes,
          "Pile get_item_rows + get_rows_sizes + render three times at every size (as built / after a child changed its "
          "amount / after it changed back), small option set: each packed child alone to every other height of "
          "0/1/3/5, all packed children together, each given / weighted child re-optioned to one other amount")
    sweep("columns", resized((c for c in columns_render_cases(3, ctx.scale((1, 12), (1, 14)))
                              if c["d"] == 1 and c["mw"] == 2 and (not quick or not c["box"])), "children"),
          _columns_nontrivial, _columns_classes,
          "Columns column_widths + get_column_sizes + render three times at every width (as built / after a child "
          "changed its amount / after it changed back), small option set, dividechars 1, min_width 2 (quick: no "
          "box_columns flags): each packed child alone to every other width of 0/1/3/5, all packed children together, "
          "each given / weighted child re-optioned to one other amount")

    given("columns", _columns_case(), 300, 8000, _columns_nontrivial, _columns_classes)
    given("pile", _pile_case(), 250, 6000, _pile_nontrivial, _pile_classes)
    given("lrpad", _calc_case(False), 300, 10000, _calc_nontrivial, _calc_classes)
    given("tbfill", _calc_case(True), 300, 10000, _calc_nontrivial, _calc_classes)
    given("padding", _padding_case(), 250, 6000, _padding_nontrivial, _padding_classes)
    given("filler", _filler_case(), 250, 6000, _filler_nontrivial, _filler_classes)
    given("overlay", _overlay_case(), 250, 6000, _overlay_nontrivial, _overlay_classes)
    given("grid", _grid_case(), 100, 2500, _grid_nontrivial, _grid_classes)
    given("grid_hist", _grid_hist_case(), 100, 2500, _grid_hist_nontrivial, _grid_hist_classes)
    # the two large enumerations last: if a loaded machine runs a shard out of its budget, it is here
    sweep("pile", pile_cases(pile_sets), _pile_nontrivial, _pile_classes, pile_name)
    sweep("columns", columns_cases(col_sets), _columns_nontrivial, _columns_classes, col_name)

    for step in steps:
        if ctx.failure is not None:
            break
        step()
    for label, n in sorted(STATS.items()):
        ctx.count(label, n)


# ---------------------------------------------------------------------------------------------
# known findings (active only if listed in known_findings.d/C19.json with status "known")



def _known_columns_zero_weight(sub, case, v):
    # root cause: column_widths divides by the sum of the weights that are left; with a zero weight in
    # the list that sum can be 0
    return (
        sub == "columns"
        and v.clause == "exception:ZeroDivisionError@widget/columns.py:column_widths"
        and any(k == "weight" and a == 0 for k, a in case["children"])
    )


def _known_overlay_flow_rows(sub, case, v):
    # root cause: the rows of a flow top widget are taken at the full maxcol, not at the width it is
    # rendered with.  Matches only when urwid's answer would be exact for rows((maxcol,)) and the child
    # really has a different number of rows at its own width.
    if sub != "overlay" or v.clause != "overlay-rows-fills-exactly":
        return False
    if case["height"][0] != "pack" or case["width"][0] == "pack" or not case["child"].get("area"):
        return False
    maxcol, maxrow = case["size"]
    probe = Probe("c", [], [FLOW], nrows=case["child"]["h"], area=case["child"]["area"])
    ov = urwid.Overlay(probe, urwid.SolidFill("."), _align_arg(case["align"]), _size_arg(case["width"]),
                       _align_arg(case["valign"]), "pack", case["min_width"], None, case["left"], case["right"],
                       case["top"], case["bottom"])
    lo, hi, tlo, thi = ov.calculate_padding_filler((maxcol, maxrow), False)
    full = probe.rows_for(maxcol)
    return tlo + full + thi == maxrow and probe.rows_for(maxcol - lo - hi) != full


def _known_overlay_clipped_left(sub, case, v):
    # root cause: Overlay.render trims the top canvas by the negative left padding but still passes that
    # negative offset to CanvasOverlay.  Matches only when urwid itself reports a negative left padding.
    # (seen as a WidgetError from validate_size, or - when the bottom rows keep the width - as a canvas
    # whose overlaid rows are too long)
    if sub != "overlay" or v.clause not in (
        "exception:WidgetError@widget/widget.py:validate_size", "overlay-position", "overlay-canvas-size"
    ):
        return False
    if case["width"][0] != "pack":
        return False
    probe = Probe("c", [], [FIXED], fixed=(case["child"]["w"], case["child"]["h"]))
    ov = urwid.Overlay(probe, urwid.SolidFill("."), _align_arg(case["align"]), "pack", _align_arg(case["valign"]), "pack",
                       None, None, case["left"], case["right"], case["top"], case["bottom"])
    return ov.calculate_padding_filler(tuple(case["size"]), False)[0] < 0


KNOWN = {
    "C19-overlay-clipped-fixed-negative-left": _known_overlay_clipped_left,
    "C19-overlay-flow-rows-at-full-width": _known_overlay_flow_rows,
}
