"""C20 — scrollable views show the right slice and scrollbars reflect the position.

Model-based (op-list) check.  A case is {kind, content spec, bar options, size, ops}; ``check_hist``
builds fresh widgets, applies one op at a time to the real widget tree and after *every* op renders
the top widget and compares the canvas (as a cell grid, vlib.cells) with the reference:

  F = full render of the wrapped widget at the width it was handed (rendered by the harness itself,
      straight from the wrapped widget, never through Scrollable/ScrollBar);
  Scrollable canvas == rows p..p+h of F, 0 <= p <= max(0, len(F)-h), blanks only where F is
      shorter / narrower than the view; get_scrollpos() after the render == that p;
  ScrollBar: bar drawn  <=>  len(F) > h;  bar column = trough* thumb+ trough*  (so top, thumb,
      bottom >= 0, top+thumb+bottom == h, thumb >= 1); top == 0 <=> p == 0 (asserted only when the
      bar has at least one trough row, otherwise the clause is unsatisfiable); top monotone in p
      between consecutive states with identical F, size and bar options; the wrapped leaf widgets
      were handed cols - bar_width;
  an event consumed by the probe leaf (it logs what it handles) leaves p unchanged.

Besides the Hypothesis campaign a deterministic sweep (``_sweep_cases``) walks every position of every small
content (0..3h+3 items / lines for every view height h) with the same interpreter and oracle; the harness decides
by itself (rows * 3 < number of items: the scope stated in the two known findings) whether a ListBox is long enough for ScrollBar's
item-based estimate, which is the only situation in which the two listed relative-mode findings are tolerated.

Canvas cache (wave 5): urwid refuses to cache a canvas built from an uncached one, so with the recording leaves
(no_cache) no Scrollable / AttrMap / ListBox canvas is ever served from CanvasCache.  Half of the cases therefore
build the content from leaves that go through the cache like stock widgets (``cached``), and half of the cases keep
*every* canvas of the history referenced (``hold: all``; a screen, a parent or a test does that - the cache holds
weak references only) instead of just the last one; op "back" resizes to a size the view had before, op "swap"
re-assigns the ``original_widget`` of a decoration of the chain (ScrollBar, an AttrMap / WidgetPlaceholder in
between, Scrollable) to a second content ("alt").  When a draw renders no leaf at all (everything came from the
cache) the handed-width clause has nothing to observe; the picture is then judged against the full render at both
widths the content can have been handed (view width, view width minus bar) and accepted if one satisfies every clause.
Two more sweeps: ``_roundtrip_cases`` (size A at every position -> every other small size B -> A, canvases held)
and ``_pageswitch_cases`` (every decoration of every chain shape re-assigned between pages of every length class).

Weaker-than-possible readings, deliberately:
  * nothing is asserted about *where* a key/wheel event scrolls to (the property only says the
    result is a valid window); only ``set_scrollpos(n)`` is compared with its docstring (lines from
    the top / from the bottom, clamped) and only for wrapped widgets without a cursor (clause
    ``set_scrollpos-doc``; switch ASSERT_SETPOS_DOC off to drop it);
  * for ScrollBar over ListBox the position is *read from the canvas* (unique row tags); if the
    window cannot be located unambiguously the p-dependent clauses are skipped (C07 owns the
    ListBox window property);
  * mouse coordinates handed to the wrapped widget are not checked (C09).
"""
from __future__ import annotations

import warnings

from hypothesis import strategies as st

import urwid
from urwid.widget.widget import WidgetError
from vlib import cells as C
from vlib.runner import Discard, Violation
from vlib.widths import use_encoding

PROPERTY = "C20"
LEVEL = "exploration"
RULE = (
    "Hypothesis op lists (<=30 ops quick, <=60 thorough) interpreted against real widgets: Scrollable over "
    "Text (0..25 lines of unique words, wrap space/any/clip, 3 alignments, per-line attributes), over a Pile "
    "of 1..8 flow widgets (recording Text, Edit, Button, Divider, selectable key/mouse probe), over a fixed "
    "probe (1..30 x 1..25, optional double-width characters, optionally selectable) or BigText (6 fonts); "
    "the same under ScrollBar (side left/right, width 1..3, 10 thumb/trough symbols, optional AttrMap in "
    "between); ScrollBar over ListBox (0..45 items of 1..3 rows incl. selectable probes; absolute and "
    "relative scrollbar mode; in a third of the ListBox cases the number of items is k * view rows + d, k in "
    "1..4, d in -1..1, half of them starting at the top). View 1..20 x 1..10 (>= bar width + 1 columns). Ops: keys up/down/page up/"
    "page down/home/end/left/right/x/a/enter/tab/backspace, mouse press buttons 1/4/5 at any cell, "
    "set_scrollpos(-2^40..2^40, biased to small), resize, back (resize to the k-th most recent earlier size of "
    "the history), content change (set_text / contents insert, "
    "delete, relabel / fixed-probe resize / BigText text+font), swap (content change by re-assigning the "
    "original_widget of the ScrollBar, of the AttrMap / WidgetPlaceholder between bar and scrolling widget (half of "
    "the bar cases have one) or of the Scrollable to a second, independently drawn content of the same family), "
    "scrollbar_side / scrollbar_width. Per case: the leaves either record every draw (no_cache) or go through "
    "urwid's canvas cache like stock widgets, and the harness keeps either the last canvas or every canvas of the "
    "history referenced. Oracle "
    "after every op (slice of the harness's own full render; bar geometry). Non-trivial: the history "
    "reaches an end of a scrollable range (p == max > 0, or back to 0 after p > 0) and afterwards a resize, back, "
    "swap or content change is applied and checked. Before the random campaign three deterministic sweeps. "
    "size-round-trips-canvases-held: every view height hA 1..5 (thorough 1..8) x Text of hA+1..hA+4 lines x every "
    "position (by set_scrollpos or by 'down' keys) x every other view B (same width, every height 1..n+1; same "
    "height, 2 columns narrower / wider) then back to A and one 'down', cacheable content, all canvases held, "
    "with and without ScrollBar. page-switches-every-decoration: view height 1..4 (thorough 1..6) x page lengths "
    "{h-1, h, h+1, 2h+2}^2 x ScrollBar over Scrollable / ListBox x nothing / AttrMap / WidgetPlaceholder in between "
    "x every decoration of the chain re-assigned, interleaved with end / down / home, recording and cacheable "
    "content. And "
    "(small-views-every-position): every view height 1..6 (thorough 1..9) x every content size n in 0..3h+3 "
    "under a ScrollBar: ListBox of n items (heights 1 / 2 / 3 / 1,2,3 cyclic / 3,1 cyclic; unselectable Text or "
    "selectable probes) walked from the top to the end and back with down/up and with page down/page up, and "
    "Scrollable over n Text lines put at every position 0..max+1 and -1..-(max+2) with set_scrollpos; same "
    "oracle after every op."
)
ASSUMPTIONS = [
    "vlib.cells grid view of a canvas (C02) and the wcwidth table are the trusted base",
    "the wrapped widget's own render is the reference content (its correctness is C01/C03/C19's business)",
    "utf-8 encoding only (the default thumb symbol is not representable elsewhere)",
    "the wrapped widget is never handed 0 columns: view width > scrollbar width",
    "every op is followed by a render, as in MainLoop (input, then draw_screen)",
    "a canvas that is still referenced (by the harness, standing in for a screen or a parent canvas) may be served "
    "again by CanvasCache; whatever is served must be the right picture for the current state",
    "a draw in which no leaf is rendered (all from the cache) cannot show the width the content was handed: the "
    "picture is judged at both possible widths and accepted if one satisfies all clauses",
    "re-assigning WidgetDecoration.original_widget (ScrollBar, AttrMap, WidgetPlaceholder, Scrollable) to a widget "
    "of the sizing the decoration was built around is a supported content change",
]

ASSERT_SETPOS_DOC = True

REC: list = []  # widths handed to recording leaves during the current top-level render
_CTX = None  # set by shard(): dynamic coverage counters

SCROLL_KEYS = ["up", "down", "page up", "page down", "home", "end"]
KEYS = [*SCROLL_KEYS, "left", "right", "x", "a", "enter", "tab", "backspace"]
BAR_CHARS = [" ", "█", "▓", "▒", "░", "│", "┃", "║", "#", "|", "."]
WRAPS = ["space", "any", "clip"]
ALIGNS = ["left", "center", "right"]
FONTS = ["Thin3x3Font", "Thin4x3Font", "HalfBlock5x4Font", "HalfBlock6x5Font", "HalfBlock7x7Font", "Thin6x6Font"]
BLANK = (b" ", None, None)


def _count(label):
    if _CTX is not None and _CTX.failure is None:
        _CTX.count(label)


# ---------------------------------------------------------------------------------------------
# leaves


def _tag(n):
    return chr(ord("a") + (n // 26) % 26) + chr(ord("a") + n % 26)


def text_markup(uid, lines):
    """lines: list of word counts.  Every word is unique: <uid><line><word>."""
    out = []
    for i, nwords in enumerate(lines):
        if i:
            out.append("\n")
        if nwords:
            out.append((f"a{i % 3}", " ".join(f"{uid}{_tag(i)}{j}" for j in range(nwords))))
    return out or ""


class RecText(urwid.Text):
    """Text that records the width it is rendered at (render not cached so that it always records)."""

    no_cache = ["render"]

    def render(self, size, focus=False):
        REC.append(size[0] if size else None)
        return super().render(size, focus)


class RecPile(urwid.Pile):
    """Pile that records the width it is rendered at (a Pile of Buttons has no recording leaf)."""

    no_cache = ["render"]

    def render(self, size, focus=False):
        REC.append(size[0] if size else None)
        return super().render(size, focus)


class CRecText(urwid.Text):
    """Text that goes through urwid's canvas cache like any stock widget: it records a width only when it is
    really rendered (a cache hit records nothing)."""

    def render(self, size, focus=False):
        REC.append(size[0] if size else None)
        return super().render(size, focus)


class CRecPile(urwid.Pile):
    """Pile that goes through the canvas cache; records when it is really rendered."""

    def render(self, size, focus=False):
        REC.append(size[0] if size else None)
        return super().render(size, focus)


class KeyProbe(urwid.Widget):
    """Selectable flow leaf: `nrows` tagged rows; consumes (and logs) the configured keys / buttons."""

    _sizing = frozenset([urwid.FLOW])
    _selectable = True
    no_cache = ["render", "rows"]

    def __init__(self, uid, nrows, keys, buttons, log):
        super().__init__()
        self.uid, self.nrows, self.keys, self.buttons, self.log = uid, nrows, set(keys), set(buttons), log

    def rows(self, size, focus=False):
        return self.nrows

    def render(self, size, focus=False):
        return self._draw(size)

    def _draw(self, size):
        (maxcol,) = size
        REC.append(maxcol)
        rows = [f"{self.uid}P{i}".encode()[:maxcol].ljust(maxcol) for i in range(self.nrows)]
        return urwid.TextCanvas(rows, maxcol=maxcol)

    def keypress(self, size, key):
        if key in self.keys:
            self.log.append(("key", key))
            return None
        return key

    def mouse_event(self, size, event, button, col, row, focus):
        if event == "mouse press" and button in self.buttons:
            self.log.append(("mouse", button))
            return True
        return False


class CKeyProbe(KeyProbe):
    """The same through the canvas cache (every change of `nrows` is followed by _invalidate())."""

    no_cache = []

    def rows(self, size, focus=False):
        return self.nrows

    def render(self, size, focus=False):
        return self._draw(size)


class FixedProbe(urwid.Widget):
    """Fixed leaf of c x r cells, rows tagged; optional double-width characters; optionally selectable."""

    _sizing = frozenset([urwid.FIXED])
    no_cache = ["render"]

    def __init__(self, c, r, wide, keys, buttons, log):
        super().__init__()
        self.c, self.r, self.wide, self.keys, self.buttons, self.log = c, r, wide, set(keys), set(buttons), log
        self._selectable = bool(keys)

    def pack(self, size=(), focus=False):
        return (self.c, self.r)

    def _row(self, i):
        want = self.c
        out, w = [], 0
        chars = list(f"{i:02d}") + [("漢" if (k + i) % 2 == 0 else "xyz"[k % 3]) if self.wide else "uvw"[k % 3]
                                    for k in range(self.c)]
        for ch in chars:
            cw = 2 if ch == "漢" else 1
            if w + cw > want:
                break
            out.append(ch)
            w += cw
        return ("".join(out) + " " * (want - w)).encode("utf-8")

    def render(self, size, focus=False):
        return self._draw(size)

    def _draw(self, size):
        if size != ():
            raise AssertionError(f"fixed probe rendered with size {size!r}")
        return urwid.TextCanvas([self._row(i) for i in range(self.r)], maxcol=self.c)

    def keypress(self, size, key):
        if key in self.keys:
            self.log.append(("key", key))
            return None
        return key

    def mouse_event(self, size, event, button, col, row, focus):
        if event == "mouse press" and button in self.buttons:
            self.log.append(("mouse", button))
            return True
        return False


class CFixedProbe(FixedProbe):
    """The same through the canvas cache (every change of c / r is followed by _invalidate())."""

    no_cache = []

    def render(self, size, focus=False):
        return self._draw(size)


REC_TEXTS = (RecText, CRecText)

# ---------------------------------------------------------------------------------------------
# building widgets from specs


class World:
    """The widget chain  [ScrollBar ->] [decoration ->] Scrollable -> content  (or ... -> ListBox).

    With an alternative content ("alt" in the case) there are two widgets of every level below the top one and
    every decoration of the chain (ScrollBar, the decoration in between, Scrollable) can have its
    ``original_widget`` re-assigned to the other widget of the level below (op "swap"); ``resolve`` follows
    the chain to what is displayed now.
    """

    def resolve(self):
        leaf = 0
        if self.bar is not None:
            leaf = self.deco_child[self.bar_child] if self.decos else self.bar_child
        if self.scrs:
            self.scr, self.lb = self.scrs[leaf], None
            ii = self.scr_child[leaf]
        else:
            self.scr, self.lb = None, self.inners[leaf]
            ii = leaf
        self.inner, self.ck = self.inners[ii], self.cks[ii]
        self.flow = self.ck in ("text", "pile", "listbox")

    def swap(self, level):
        """Re-assign the original_widget of one decoration of the displayed chain; False if there is no alternative."""
        if len(self.inners) < 2:
            return False
        levels = []
        if self.bar is not None:
            levels.append("bar")
            if self.decos:
                levels.append("deco")
        if self.scrs:
            levels.append("scr")
        lv = levels[level % len(levels)]
        leaves = self.scrs or self.inners
        if lv == "bar":
            self.bar_child ^= 1
            self.bar.original_widget = (self.decos or leaves)[self.bar_child]
        elif lv == "deco":
            d = self.bar_child
            self.deco_child[d] ^= 1
            self.decos[d].original_widget = leaves[self.deco_child[d]]
        else:
            self.resolve()
            s = self.scrs.index(self.scr)
            self.scr_child[s] ^= 1
            self.scr.original_widget = self.inners[self.scr_child[s]]
        self.resolve()
        _count("swap:" + lv)
        return True


def _flow_item(spec, uid, log, cached=False):
    t = spec["t"]
    if t == "text":
        cls = CRecText if cached else RecText
        return cls(text_markup(uid, spec["lines"]), wrap=spec.get("wrap", "space"), align=spec.get("align", "left"))
    if t == "edit":
        return urwid.Edit("c" * spec["cap"], (uid * 20)[: spec["txt"]], multiline=spec["ml"])
    if t == "button":
        return urwid.Button((uid + "button-label")[: spec["lab"]])
    if t == "div":
        return urwid.Divider(spec["ch"], top=spec["top"], bottom=spec["bottom"])
    if t == "probe":
        return (CKeyProbe if cached else KeyProbe)(uid, spec["rows"], spec["keys"], spec["buttons"], log)
    raise AssertionError(spec)


def _build_content(w, case, content):
    ck = content["c"]
    uid, cached = w.new_uid, w.cached
    if ck == "text":
        cls = CRecText if cached else RecText
        return cls(text_markup(uid(), content["lines"]), wrap=content["wrap"], align=content["align"])
    if ck == "pile":
        items = [_flow_item(s, uid(), w.log, cached) for s in content["items"]]
        inner = (CRecPile if cached else RecPile)(items)
        sel = [i for i, it in enumerate(items) if it.selectable()]
        if sel:
            inner.focus_position = sel[content["focus"] % len(sel)]
        return inner
    if ck == "fixed":
        cls = CFixedProbe if cached else FixedProbe
        return cls(content["cols"], content["rows"], content["wide"], content["keys"], content["buttons"], w.log)
    if ck == "bigtext":
        return urwid.BigText(content["text"], getattr(urwid, FONTS[content["font"] % len(FONTS)])())
    if ck == "listbox":
        filler = CRecText if cached else RecText
        items = [_flow_item(s, uid(), w.log, cached) for s in content["items"]]
        items += [filler(text_markup(uid(), [1]), wrap="clip") for _ in range(content["tail"])]
        if content.get("fit"):
            # len(body) == k * (rows of the first view) + d, at least one item
            k, d = content["fit"]
            want = max(1, k * case["size"][1] + d)
            del items[want:]
            items += [filler(text_markup(uid(), [1]), wrap="clip") for _ in range(want - len(items))]
        inner = urwid.ListBox(urwid.SimpleFocusListWalker(items))
        if items:
            inner.set_focus(content["focus"] % len(items))
        return inner
    raise AssertionError(ck)


def build(case):
    w = World()
    w.log = []
    w.uid = 0
    w.cached = bool(case.get("cached"))

    def uid():
        w.uid += 1
        return _tag(w.uid)

    w.new_uid = uid
    contents = [case["content"]] + ([case["alt"]] if case.get("alt") else [])
    w.cks = [c["c"] for c in contents]
    w.inners = [_build_content(w, case, c) for c in contents]

    w.bar = None
    w.scrs, w.decos = [], []
    w.bar_child, w.deco_child, w.scr_child = 0, [0, 1], [0, 1]
    kind = case["kind"]
    if kind in ("scrollable", "sb_scrollable"):
        if "listbox" in w.cks:
            raise Discard()
        w.scrs = [urwid.Scrollable(x, force_forward_keypress=bool(case.get("ffk"))) for x in w.inners]
        leaves = w.scrs
    else:
        if set(w.cks) != {"listbox"}:
            raise Discard()
        leaves = w.inners
    if kind == "scrollable":
        w.top = w.scrs[0]
    else:
        b = case["bar"]
        deco = case.get("deco")
        if deco in (True, "attrmap"):
            w.decos = [urwid.AttrMap(x, None) for x in leaves]
        elif deco == "placeholder":
            w.decos = [urwid.WidgetPlaceholder(x) for x in leaves]
        elif deco:
            raise AssertionError(deco)
        w.thumb, w.trough = BAR_CHARS[b["thumb"]], BAR_CHARS[b["trough"]]
        if w.thumb == w.trough:
            raise Discard()
        w.bar = w.top = urwid.ScrollBar((w.decos or leaves)[0], thumb_char=w.thumb, trough_char=w.trough, side=b["side"],
                                        width=b["width"])
    w.resolve()
    return w


# ---------------------------------------------------------------------------------------------
# reference


def full_render(w, hw, focus, mode):
    """F: the wrapped content rendered in full by the harness (grid)."""
    try:
        if w.ck == "listbox":
            rows = []
            fw = w.inner.focus
            for it in w.inner.body:
                rows.extend(C.grid_of(it.render((hw,), focus and it is fw), mode))
            return rows
        if w.flow:
            return C.grid_of(w.inner.render((hw,), focus), mode)
        return C.grid_of(w.inner.render((), focus), mode)
    finally:
        del REC[:]


def window(F, p, h, width):
    out = []
    for r in range(p, p + h):
        if 0 <= r < len(F):
            row = F[r]
            if len(row) > width:
                row = C.slice_row(row, 0, width)
            else:
                row = list(row) + [BLANK] * (width - len(row))
        else:
            row = [BLANK] * width
        out.append(row)
    return out


def parse_bar(w, grid, cols, bw, side):
    """-> (top, thumb, bottom, content_region)"""
    thumb_b, trough_b = w.thumb.encode("utf-8"), w.trough.encode("utf-8")
    seq = []
    region = []
    for y, row in enumerate(grid):
        bar = row[:bw] if side == "left" else row[cols - bw :]
        region.append(row[bw:] if side == "left" else row[: cols - bw])
        kinds = set()
        for cell in bar:
            if C.is_cont(cell) or cell[1] is not None or cell[0] not in (thumb_b, trough_b):
                raise Violation("bar-cells", f"row {y}: scrollbar cell {cell!r} is neither thumb {w.thumb!r} nor trough {w.trough!r}")
            kinds.add(cell[0])
        if len(kinds) != 1:
            raise Violation("bar-cells", f"row {y}: scrollbar columns differ: {bar!r}")
        seq.append("T" if kinds.pop() == thumb_b else "t")
    s = "".join(seq)
    top = len(s) - len(s.lstrip("t"))
    bottom = len(s) - len(s.rstrip("t"))
    thumb = len(s) - top - bottom
    if thumb < 1 or "t" in s[top : top + thumb]:
        raise Violation("bar-parts", f"scrollbar column reads {s!r}: not trough* thumb+ trough*")
    return top, thumb, bottom, region


# ---------------------------------------------------------------------------------------------
# the interpreter


def check_hist(case):
    mode = use_encoding("utf-8")
    del REC[:]
    with warnings.catch_warnings(record=True) as wlog:
        warnings.simplefilter("always")
        _run(case, mode, wlog)


def _mis_built(wlog):
    for wm in wlog:
        if "not supported" in str(wm.message) or "Warning" in wm.category.__name__ and "sizing" in str(wm.message).lower():
            return True
    return False


def _run(case, mode, wlog):
    w = build(case)
    cols, rows = case["size"]
    focus = bool(case.get("focus", True))
    bw = side = None
    if w.bar is not None:
        bw, side = case["bar"]["width"], case["bar"]["side"]
        cols = max(cols, bw + 1)
    deferred = []
    prev = None  # last validated state
    # canvases held like a screen / a parent's canvas would hold them (CanvasCache keeps weak references only):
    # hold "last": the canvas of the last draw;  hold "all": every canvas of the history (a canvas stays valid
    # for as long as somebody refers to it, so whatever the cache serves later must still be the right picture)
    hold_all = case.get("hold") == "all"
    kept = []
    sizes = [(cols, rows)]  # the distinct view sizes of the history, most recently used last
    hw_last = None
    reached_end = False
    seen_scrolled = False
    nt = False

    ops = [["init"], *case["ops"]]
    for op in ops:
        kind = op[0]
        log_before = len(w.log)
        applied = True
        setpos_n = None
        if kind == "init":
            pass
        elif kind == "key":
            if not focus:
                continue
            try:
                w.top.keypress((cols, rows), op[1])
            except urwid.ListBoxError as e:
                if w.lb is None:
                    raise
                # ListBox's own key handling failed (C07's subject, seen through ScrollBar): record, keep going
                deferred.append(Violation(f"listbox-raises:ListBoxError:key:{op[1]}", f"after {op}: {e}"))
        elif kind == "mouse":
            w.top.mouse_event((cols, rows), "mouse press", op[1], op[2] % cols, op[3] % rows, focus)
        elif kind == "setpos":
            if w.scr is None:
                continue
            w.scr.set_scrollpos(op[1])
            setpos_n = op[1]
        elif kind == "resize":
            cols, rows = op[1], op[2]
            if bw is not None:
                cols = max(cols, bw + 1)
        elif kind == "back":
            # resize to a size the view already had earlier in this history (the op[1]-th most recent other one)
            earlier = sizes[:-1] if sizes[-1] == (cols, rows) else sizes
            if not earlier:
                continue
            cols, rows = earlier[-1 - op[1] % len(earlier)]
            if bw is not None:
                cols = max(cols, bw + 1)
            _count("op:back-to-earlier-size")
        elif kind == "side":
            if w.bar is None:
                continue
            side = op[1]
            w.bar.scrollbar_side = side
        elif kind == "width":
            if w.bar is None:
                continue
            bw = min(op[1], cols - 1)
            w.bar.scrollbar_width = bw
        elif kind == "edit":
            applied = _content_op(w, op)
            if not applied:
                continue
        elif kind == "swap":
            # content change by re-assigning the original_widget of a decoration of the chain
            if not w.swap(op[1]):
                continue
            hw_last = None
        else:
            raise AssertionError(op)
        if (cols, rows) in sizes:
            sizes.remove((cols, rows))
        sizes.append((cols, rows))
        consumed = len(w.log) > log_before
        if consumed:
            _count("op:consumed-by-probe")

        # ---- render like the main loop would ------------------------------------------------
        del REC[:]
        try:
            canv = w.top.render((cols, rows), focus)
        except WidgetError as e:
            if w.bar is None:
                raise
            # candidate defect: the thumb fills the whole bar (always so in a 1-row view; also when the content
            # fits at the reduced width) and the position is > 0: top_height is forced to 1, bottom_height
            # becomes -1, the bar canvas has rows+1 rows.  Classification only (mirrors the thumb size rule).
            n_reduced = len(full_render(w, cols - bw, focus, mode))
            if not (rows == 1 or max(1, round(min(1.0, rows / max(1, n_reduced)) * rows)) >= rows):
                raise
            pos = w.scr.get_scrollpos() if w.scr is not None else "?"
            deferred.append(Violation("bar-render-raises:WidgetError:thumb-fills-bar",
                                      f"after {op}: ScrollBar.render(({cols}, {rows})), {n_reduced} content rows, position {pos}: {e}"))
            prev = None
            if not hold_all:
                del kept[:]
            del REC[:]
            continue
        handed = {x for x in REC}
        del REC[:]
        if hold_all:
            kept.append(canv)
        else:
            kept[:] = [canv]
        if _mis_built(wlog):
            raise Discard()
        try:
            grid = C.grid_of(canv, mode)
        except C.GridError as e:
            raise Violation("canvas-shape", f"after {op}: {e}") from None
        if canv.cols() != cols or len(grid) != rows:
            raise Violation("box-size", f"after {op}: canvas {canv.cols()}x{len(grid)} for size {(cols, rows)}")

        # ---- which width was the wrapped widget handed --------------------------------------
        if len(handed) > 1:
            raise Violation("handed-width", f"after {op}: leaves were rendered at several widths {sorted(handed, key=repr)}")
        if handed or not w.flow or (w.lb is not None and not len(w.lb.body)):
            # observed;  or None: decided in _judge (fixed content: from F, which does not depend on the width;
            # empty ListBox: nothing to hand anything to)
            cands = [handed.pop() if handed else None]
        else:
            # No leaf was rendered in this draw: everything below came out of the canvas cache (possible only for
            # cacheable content: case["cached"], BigText), so nothing was handed to the wrapped widget now and the
            # width clause has nothing to observe.  The picture is then judged against the full render at either
            # width the wrapped widget can have been handed when the cached canvas was made (the view width or the
            # view width minus the bar); the state is accepted if one of the two satisfies every clause.
            cands = [cols] if w.bar is None else [cols - bw, cols]
            if hw_last in cands:
                cands.remove(hw_last)
                cands.insert(0, hw_last)
            _count("state:served-from-cache")
        first = None
        for hw_try in cands:
            softs, counts = [], []
            try:
                state, hw_used, maxp = _judge(w, mode, op, grid, cols, rows, bw, side, focus, hw_try, prev, consumed, setpos_n,
                                              log_before, softs.append, counts.append)
            except Violation as v:
                if first is None:
                    first = v
                continue
            break
        else:
            raise first
        deferred.extend(softs)
        for label in counts:
            _count(label)
        if w.flow:
            hw_last = hw_used
        p = state["p"]

        # ---- coverage --------------------------------------------------------------------------
        if p is not None:
            if p > 0:
                seen_scrolled = True
            if kind in ("resize", "edit", "back", "swap") and reached_end:
                nt = True
            if (maxp > 0 and p == maxp) or (seen_scrolled and p == 0 and maxp > 0):
                reached_end = True
                _count("state:at-end-of-range")
        prev = state

    if _CTX is not None and _CTX.failure is None:
        if nt:
            _CTX.nontrivial(case)
            _CTX.sample({"sub": "hist", "case": case})
            _CTX.count("nt:end-then-resize-or-edit")
    if deferred:
        raise deferred[0]


def _judge(w, mode, op, grid, cols, rows, bw, side, focus, hw, prev, consumed, setpos_n, log_before, soft, _count):
    """All clauses for one drawn state, given the width `hw` the wrapped widget was handed (None: not applicable).
    -> (state, hw, maxp); raises Violation."""
    kind = op[0]
    if w.flow and w.lb is not None and not len(w.lb.body):
        # empty ListBox: no leaf is handed anything; no content, so no bar: the view must be blank
        if C.diff(grid, window([], 0, rows, cols)) is not None:
            raise Violation("bar-iff-overflow", f"after {op}: empty ListBox, view {(cols, rows)} is not blank: "
                            f"{C.diff(grid, window([], 0, rows, cols))}")
        hw = cols
    elif w.flow and hw is None:
        raise AssertionError("no width for flow content")

    if w.bar is None:
        if hw is None:
            hw = cols
        F = full_render(w, hw, focus, mode)
        region, bar_parts, rw = grid, None, cols
    else:
        if hw is None:
            F = full_render(w, cols, focus, mode)
            hw = cols - bw if len(F) > rows else cols
        elif hw not in (cols, cols - bw):
            raise Violation("handed-width", f"after {op}: view {cols} columns, bar width {bw}, wrapped widget handed {hw}")
        else:
            F = full_render(w, hw, focus, mode)
        bar_drawn = hw == cols - bw
        if bar_drawn != (len(F) > rows) and w.flow and (
            len(full_render(w, cols if bar_drawn else cols - bw, focus, mode)) > rows
        ) != (len(F) > rows):
            # The property does not say at which width "the content has more rows than the view" is
            # judged (the full view width, where the decision has to be made, or the reduced width the
            # content is then handed).  When the two disagree (e.g. a Button gets *shorter* when its
            # decoration columns no longer fit) either outcome is accepted: weaker reading.
            _count("bar:verdict-depends-on-width")
        elif bar_drawn != (len(F) > rows):
            raise Violation(
                "bar-iff-overflow",
                f"after {op}: content has {len(F)} rows at the {hw} columns it was handed, view has {rows} rows, "
                f"view width {cols}, bar width {bw}: scrollbar {'drawn' if bar_drawn else 'not drawn'}",
            )
        if bar_drawn:
            top_h, thumb_h, bottom_h, region = parse_bar(w, grid, cols, bw, side)
            bar_parts = (top_h, thumb_h, bottom_h)
            rw = cols - bw
            _count("state:bar-drawn")
        else:
            region, bar_parts, rw = grid, None, cols
            _count("state:no-bar")

    maxp = max(0, len(F) - rows)
    fits = len(F) <= rows and (not F or len(F[0]) <= rw)

    # ---- position -----------------------------------------------------------------------
    p = None
    if w.scr is not None:
        rep = w.scr.get_scrollpos()
        if isinstance(rep, int) and 0 <= rep <= maxp and C.diff(region, window(F, rep, rows, rw)) is None:
            p = rep
        else:
            found = [q for q in range(0, maxp + 1) if C.diff(region, window(F, q, rows, rw)) is None]
            if not found:
                near = rep if isinstance(rep, int) and 0 <= rep <= maxp else 0
                raise Violation(
                    "slice",
                    f"after {op}: view {(cols, rows)}, content {len(F)} rows x {len(F[0]) if F else 0}: canvas is not a window "
                    f"p..p+{rows} of the full render for any 0<=p<={maxp}; reported position {rep!r}; vs window({near}): "
                    f"{C.diff(region, window(F, near, rows, rw))}",
                )
            p = found[0]
            v = Violation(
                "position-reported:" + ("content-fits" if fits else "scrolling"),
                f"after {op}: view {(cols, rows)}, content {len(F)} rows: canvas shows rows {found}..+{rows}, "
                f"get_scrollpos() reports {rep!r}",
            )
            if fits:
                soft(v)  # candidate defect (stale _trim_top when the content fits); keep going
            else:
                raise v
    else:
        found = [q for q in range(0, max(1, len(F))) if C.diff(region, window(F, q, rows, rw)) is None]
        if len(found) == 1:
            p = found[0]
            if p > maxp:
                _count("lb:blank-below-while-scrolled")
        else:
            _count("lb:position-ambiguous" if found else "lb:window-not-located")
        if rows * 3 < len(w.inner.body):
            _count("lb:relative-mode")

    # ---- documented set_scrollpos semantics (cursor-less content only) --------------------
    if ASSERT_SETPOS_DOC and setpos_n is not None and w.ck in ("text", "fixed", "bigtext") and len(F) > rows:
        want = min(setpos_n, maxp) if setpos_n >= 0 else max(0, maxp + setpos_n + 1)
        if p != want:
            raise Violation(
                "set_scrollpos-doc",
                f"set_scrollpos({setpos_n}) with {len(F)} content rows in a {rows}-row view: first visible row {p}, "
                f"documented (lines from the {'top' if setpos_n >= 0 else 'bottom'}, clamped): {want}",
            )

    # ---- bar geometry against the position ---------------------------------------------
    key = (cols, rows, side, bw, hw, C.grid_text(F))
    if bar_parts is not None and p is not None:
        top_h, thumb_h, bottom_h = bar_parts
        if thumb_h < rows and (top_h == 0) != (p == 0):
            v = Violation(
                "thumb-top-iff-first-row",
                f"after {op}: first visible row {p} of {len(F)}, view {rows} rows: bar top/thumb/bottom = {bar_parts}",
            )
            if w.lb is not None and rows * 3 < len(w.lb.body) and top_h == 0 and 0 < p < w.lb.body[0].rows((hw,)):
                # candidate defect: relative (item-granular) scrollbar mode ignores that the first item is
                # partly scrolled out.  Keep going.
                v.clause += ":relative-mode-first-item-partly-visible"
                soft(v)
            else:
                raise v
        if prev is not None and prev["key"] == key and prev["bar"] is not None and prev["p"] is not None:
            if (p > prev["p"] and top_h < prev["bar"][0]) or (p < prev["p"] and top_h > prev["bar"][0]):
                v = Violation(
                    "thumb-monotone",
                    f"after {op}: position {prev['p']} -> {p} but thumb top {prev['bar'][0]} -> {top_h} "
                    f"(bars {prev['bar']} -> {bar_parts}; {len(F)} rows, view {rows})",
                )
                if w.lb is not None and rows * 3 < len(w.lb.body) and thumb_h != prev["bar"][1]:
                    # candidate defect: in relative (item-granular) mode the thumb length follows the number of
                    # items in view, which changes with the items' heights while scrolling.  Keep going.
                    v.clause += ":relative-mode-thumb-resized"
                    soft(v)
                else:
                    raise v

    # ---- consumed events do not scroll ---------------------------------------------------
    if consumed and kind in ("key", "mouse") and prev is not None and p is not None and prev["p"] is not None:
        lb_ok = w.lb is None or kind == "key" or op[1] in (4, 5)
        if lb_ok and prev["key"][:5] == key[:5] and prev["nrows"] == len(F) and p != prev["p"]:
            raise Violation(
                "consumed-event-scrolls",
                f"{op} was handled by the wrapped probe ({w.log[log_before:]}) but the position went {prev['p']} -> {p}",
            )

    return {"key": key, "p": p, "bar": bar_parts, "nrows": len(F)}, hw, maxp


def _content_op(w, op):
    """["edit", a, b, c, spec]  ->  True if something was changed"""
    _, a, b, c, spec = op
    ck = w.ck
    if ck == "text":
        n = a % 26
        lines = [(b + i * c) % 7 for i in range(n)]
        w.inner.set_text(text_markup(w.new_uid(), lines))
        return True
    if ck == "fixed":
        w.inner.c, w.inner.r = a % 30 + 1, b % 25 + 1
        w.inner._invalidate()
        return True
    if ck == "bigtext":
        if a % 2:
            w.inner.set_font(getattr(urwid, FONTS[b % len(FONTS)])())
        else:
            w.inner.set_text(str(b * 7 + c)[: 1 + c % 4])
        return True
    if ck == "pile":
        cont = w.inner.contents
        what = a % 3
        if what == 0:
            if len(cont) <= 1:
                return False
            del cont[b % len(cont)]
            return True
        if what == 1:
            if len(cont) >= 12:
                return False
            cont.insert(b % (len(cont) + 1), (_flow_item(spec, w.new_uid(), w.log, w.cached), w.inner.options()))
            return True
        return _relabel(w, cont[b % len(cont)][0], c)
    if ck == "listbox":
        body = w.inner.body
        what = a % 3
        if what == 0:
            if not len(body):
                return False
            del body[b % len(body)]
            return True
        if what == 1:
            if len(body) >= 60:
                return False
            if spec["t"] not in ("text", "probe"):
                spec = {"t": "text", "lines": [1 + c % 3]}
            body.insert(b % (len(body) + 1), _flow_item(spec, w.new_uid(), w.log, w.cached))
            return True
        if not len(body):
            return False
        return _relabel(w, body[b % len(body)], c)
    raise AssertionError(ck)


def _relabel(w, item, c):
    if isinstance(item, REC_TEXTS):
        item.set_text(text_markup(w.new_uid(), [(c + i) % 5 for i in range(1 + c % 4)]))
    elif isinstance(item, urwid.Edit):
        item.set_edit_text((w.new_uid() * 20)[: c % 35])
    elif isinstance(item, urwid.Button):
        item.set_label((w.new_uid() + "relabelled")[: c % 12])
    elif isinstance(item, KeyProbe):
        item.nrows = 1 + c % 4
        item._invalidate()
    else:
        return False
    return True


SUBS = {"hist": check_hist}


# ---------------------------------------------------------------------------------------------
# strategies

_lines = st.lists(st.integers(0, 6), min_size=0, max_size=25)
_keysub = st.lists(st.sampled_from([*SCROLL_KEYS, "x"]), max_size=4, unique=True)
_btnsub = st.lists(st.sampled_from([1, 4, 5]), max_size=3, unique=True)

_text_item = st.fixed_dictionaries(
    {"t": st.just("text"), "lines": st.lists(st.integers(0, 5), min_size=1, max_size=6), "wrap": st.sampled_from(WRAPS),
     "align": st.sampled_from(ALIGNS)}
)
_edit_item = st.fixed_dictionaries({"t": st.just("edit"), "cap": st.integers(0, 8), "txt": st.integers(0, 30), "ml": st.booleans()})
_button_item = st.fixed_dictionaries({"t": st.just("button"), "lab": st.integers(0, 12)})
_div_item = st.fixed_dictionaries(
    {"t": st.just("div"), "top": st.integers(0, 2), "bottom": st.integers(0, 2), "ch": st.sampled_from([" ", "-"])}
)
_probe_item = st.fixed_dictionaries({"t": st.just("probe"), "rows": st.integers(1, 4), "keys": _keysub, "buttons": _btnsub})
_pile_item = st.one_of(_text_item, _text_item, _edit_item, _button_item, _div_item, _probe_item, _probe_item)
_lb_item = st.one_of(
    st.fixed_dictionaries({"t": st.just("text"), "lines": st.lists(st.integers(1, 3), min_size=1, max_size=3),
                           "wrap": st.sampled_from(["clip", "space"])}),
    _probe_item,
)

_c_text = st.fixed_dictionaries({"c": st.just("text"), "lines": _lines, "wrap": st.sampled_from(WRAPS), "align": st.sampled_from(ALIGNS)})
_c_pile = st.fixed_dictionaries({"c": st.just("pile"), "items": st.lists(_pile_item, min_size=1, max_size=8), "focus": st.integers(0, 7)})
_c_fixed = st.fixed_dictionaries(
    {"c": st.just("fixed"), "cols": st.integers(1, 30), "rows": st.integers(1, 25), "wide": st.booleans(), "keys": _keysub,
     "buttons": _btnsub}
)
_c_big = st.fixed_dictionaries({"c": st.just("bigtext"), "text": st.text("0123456789", min_size=1, max_size=4), "font": st.integers(0, 5)})
_c_lb = st.fixed_dictionaries(
    {"c": st.just("listbox"), "items": st.lists(_lb_item, min_size=0, max_size=12), "tail": st.one_of(st.just(0), st.integers(0, 35)),
     "focus": st.integers(0, 50)}
)
# the same, but the number of items is tied to the height of the first view: len(body) == k * rows + d (the tail of
# one-row items is sized, or the drawn items are cut, to get there), so that lists of exactly / one more / one less
# than k screens of items - in particular both sides of ListBox's "more than 3 screens of items" rule that switches
# the ScrollBar to the item-based estimate - are part of the generated domain; half of these start at the top
_c_lb_fit = st.fixed_dictionaries(
    {"c": st.just("listbox"), "items": st.lists(_lb_item, min_size=1, max_size=12), "tail": st.just(0),
     "fit": st.tuples(st.sampled_from([1, 2, 3, 3, 3, 4]), st.integers(-1, 1)).map(list),
     "focus": st.one_of(st.just(0), st.integers(0, 50))}
)
_scr_content = st.one_of(_c_text, _c_text, _c_pile, _c_pile, _c_fixed, _c_big)

_bar = st.fixed_dictionaries(
    {"side": st.sampled_from(["right", "right", "left"]), "width": st.sampled_from([1, 1, 1, 2, 3]),
     "thumb": st.integers(1, len(BAR_CHARS) - 1), "trough": st.integers(0, len(BAR_CHARS) - 1)}
).filter(lambda b: b["thumb"] != b["trough"])

_pos = st.one_of(st.integers(-12, 40), st.integers(-12, 40), st.integers(-(2**40), 2**40))
_size = st.tuples(st.integers(1, 20), st.integers(1, 10)).map(list)

_op = st.one_of(
    st.tuples(st.just("key"), st.sampled_from(SCROLL_KEYS)),
    st.tuples(st.just("key"), st.sampled_from(SCROLL_KEYS)),
    st.tuples(st.just("key"), st.sampled_from(KEYS)),
    st.tuples(st.just("mouse"), st.sampled_from([4, 5, 4, 5, 1]), st.integers(0, 19), st.integers(0, 9)),
    st.tuples(st.just("setpos"), _pos),
    st.tuples(st.just("resize"), st.integers(1, 20), st.integers(1, 10)),
    st.tuples(st.just("edit"), st.integers(0, 30), st.integers(0, 30), st.integers(0, 30), _pile_item),
    st.tuples(st.just("side"), st.sampled_from(["left", "right"])),
    st.tuples(st.just("width"), st.integers(1, 3)),
    st.tuples(st.just("back"), st.sampled_from([0, 0, 1, 2, 3])),
    st.tuples(st.just("back"), st.sampled_from([0, 0, 1, 2, 3])),
    st.tuples(st.just("swap"), st.integers(0, 2)),
).map(list)


_deco = st.sampled_from([False, False, "attrmap", "placeholder"])


def _case(max_ops):
    ops = st.lists(_op, min_size=1, max_size=max_ops)
    # hold: which canvases stay referenced (the last one / all of the history); cached: the content goes through
    # the canvas cache like stock widgets do (so Scrollable's own canvases are cached) or is re-rendered and
    # records its width on every draw; alt: the second content of the same family for the "swap" op
    common = {"size": _size, "focus": st.sampled_from([True, True, True, False]), "ops": ops,
              "hold": st.sampled_from(["last", "all"]), "cached": st.booleans()}
    _lb = st.one_of(_c_lb, _c_lb, _c_lb_fit)
    return st.one_of(
        st.fixed_dictionaries({"kind": st.just("scrollable"), "content": _scr_content, "alt": _scr_content, "ffk": st.booleans(),
                               **common}),
        st.fixed_dictionaries(
            {"kind": st.just("sb_scrollable"), "content": _scr_content, "alt": _scr_content, "ffk": st.booleans(), "bar": _bar,
             "deco": _deco, **common}
        ),
        st.fixed_dictionaries({"kind": st.just("sb_listbox"), "content": _lb, "alt": _lb, "bar": _bar, "deco": _deco, **common}),
    )


def _classes(case):
    out = [f"kind:{case['kind']}", f"content:{case['content']['c']}"]
    kinds = {o[0] for o in case["ops"]}
    out.extend(f"has-op:{k}" for k in sorted(kinds))
    if case["size"][1] == 1 or any(o[0] == "resize" and o[2] == 1 for o in case["ops"]):
        out.append("view:one-row")
    if any(o[0] == "setpos" and o[1] < 0 for o in case["ops"]):
        out.append("setpos:negative")
    if any(o[0] == "setpos" and abs(o[1]) > 1000 for o in case["ops"]):
        out.append("setpos:huge")
    if case.get("bar") and case["bar"]["side"] == "left":
        out.append("bar:left")
    if case.get("bar") and case["bar"]["width"] > 1:
        out.append("bar:wide")
    out.append(f"hold:{case.get('hold', 'last')}")
    out.append("content:" + ("through-canvas-cache" if case.get("cached") else "recording-uncached"))
    if case.get("deco"):
        out.append(f"deco:{case['deco']}")
    return out


# ---------------------------------------------------------------------------------------------
# deterministic sweep over small views: every position of every small content


HEIGHT_PATTERNS = [[1], [2], [3], [1, 2, 3], [3, 1]]  # item heights, repeated cyclically over the list


def _sweep_cases(hmax):
    """Every view height h in 1..hmax, every content size n in 0..3h+3 (so: content that fits, exactly fits, is one
    row / one item longer, and - for a ListBox - lists of less than, exactly and more than three screens of items),
    walked through *every* reachable position: forwards to the end and back to the top.

    ScrollBar over ListBox: n items whose heights follow each HEIGHT_PATTERN, unselectable Text or selectable
    probes, scrolled with down/up or page down/page up.  ScrollBar over Scrollable over Text of n one-word lines:
    set_scrollpos(0..max+1) and then the same positions counted from the bottom (-1..-(max+2)).
    """
    for h in range(1, hmax + 1):
        for n in range(0, 3 * h + 4):
            bar = {"side": "left" if (h + n) % 3 == 0 else "right", "width": 1 + (h + n) % 5 // 4, "thumb": 8, "trough": 10}
            size = [9 + bar["width"], h]
            for pi, pat in enumerate(HEIGHT_PATTERNS):
                heights = [pat[i % len(pat)] for i in range(n)]
                total = sum(heights)
                for sel in (False, True):
                    if sel:
                        items = [{"t": "probe", "rows": r, "keys": [], "buttons": []} for r in heights]
                    else:
                        items = [{"t": "text", "lines": [1] * r, "wrap": "clip"} for r in heights]
                    for fwd, back in (("down", "up"), ("page down", "page up")):
                        # one row (unselectable) or one item (selectable) per "down" at least; a page key moves
                        # by at least one row as well: total + 1 presses reach the end from the top
                        k = (n if sel else total) + 1 if fwd == "down" else -(-total // h) + 1
                        yield {
                            "kind": "sb_listbox",
                            "content": {"c": "listbox", "items": items, "tail": 0, "focus": 0},
                            "bar": bar, "deco": False, "size": size, "focus": True,
                            "ops": [["key", fwd]] * k + [["key", back]] * k,
                            "sweep": f"lb/{pi}/{int(sel)}/{fwd}",
                        }
            maxp = max(0, n - h)
            yield {
                "kind": "sb_scrollable",
                "content": {"c": "text", "lines": [1] * n, "wrap": "clip", "align": "left"},
                "ffk": False, "bar": bar, "deco": False, "size": size, "focus": True,
                "ops": [["setpos", q] for q in range(0, maxp + 2)] + [["setpos", -q] for q in range(1, maxp + 3)],
                "sweep": "text/setpos",
            }


def _roundtrip_cases(hmax):
    """Size round trips A -> B -> A with every canvas of the history still referenced, content that goes through
    the canvas cache: every view height hA in 1..hmax, every Text of n = hA+1..hA+4 one-word lines (so there is a
    scrollable range at A), every position p of that range (reached by set_scrollpos or by p x 'down'), every
    other view B out of: the same width with every height 1..n+1 (shorter, taller but still scrolling, taller so
    that the position has to be clamped, exactly fitting, more than fitting) and the same height 2 columns
    narrower / wider; then back to A, and one more 'down'.  Plain Scrollable and under a ScrollBar."""
    for ha in range(1, hmax + 1):
        for n in range(ha + 1, ha + 5):
            for p in range(0, n - ha + 1):
                for via in ("setpos", "down"):
                    move = [["setpos", p]] if via == "setpos" else [["key", "down"]] * p
                    for kind in ("scrollable", "sb_scrollable"):
                        others = [[9, hb] for hb in range(1, n + 2) if hb != ha] + [[7, ha], [11, ha]]
                        for b_size in others:
                            case = {
                                "kind": kind,
                                "content": {"c": "text", "lines": [1] * n, "wrap": "clip", "align": "left"},
                                "ffk": False, "size": [9, ha], "focus": True, "hold": "all", "cached": True,
                                "ops": [*move, ["resize", *b_size], ["back", 0], ["key", "down"]],
                                "sweep": f"roundtrip/{via}",
                            }
                            if kind == "sb_scrollable":
                                case["bar"] = {"side": "right", "width": 1, "thumb": 8, "trough": 10}
                                case["deco"] = False
                            yield case


def _pageswitch_cases(hmax):
    """Page switches: every chain shape (ScrollBar over Scrollable / over ListBox; nothing, an AttrMap or a
    WidgetPlaceholder in between) x every decoration of the chain whose original_widget can be re-assigned
    (ScrollBar, the decoration in between, Scrollable) x every pair of page lengths out of {h-1, h, h+1, 2h+2}
    (fits, fits exactly, one row more, long) x view height h in 1..hmax: draw, switch, scroll to the end, switch
    back, one row down, switch again, home, switch back; content through the canvas cache or recording."""
    bar = {"side": "right", "width": 1, "thumb": 8, "trough": 10}
    for h in range(1, hmax + 1):
        lengths = [h - 1, h, h + 1, 2 * h + 2]
        for n0 in lengths:
            for n1 in lengths:
                for kind in ("sb_scrollable", "sb_listbox"):
                    for deco in (False, "attrmap", "placeholder"):
                        nlevels = 1 + bool(deco) + (kind == "sb_scrollable")
                        for level in range(nlevels):
                            for cached in (False, True):
                                if kind == "sb_scrollable":
                                    c0, c1 = ({"c": "text", "lines": [1] * n, "wrap": "clip", "align": "left"} for n in (n0, n1))
                                else:
                                    c0, c1 = ({"c": "listbox", "items": [{"t": "text", "lines": [1], "wrap": "clip"}] * n,
                                               "tail": 0, "focus": 0} for n in (n0, n1))
                                sw = ["swap", level]
                                yield {
                                    "kind": kind, "content": c0, "alt": c1, "ffk": False, "bar": bar, "deco": deco,
                                    "size": [10, h], "focus": True, "hold": "all", "cached": cached,
                                    "ops": [sw, ["key", "end"], sw, ["key", "down"], sw, ["key", "home"], sw],
                                    "sweep": f"pageswitch/{kind}/{deco or 'direct'}/{level}",
                                }


def _sweep_classes(case):
    out = ["sweep:" + case["sweep"].split("/")[0]]
    if out[0] in ("sweep:roundtrip", "sweep:pageswitch"):
        return out
    if case["kind"] == "sb_listbox":
        n, h = len(case["content"]["items"]), case["size"][1]
        out.append("sweep:lb:items " + ("< 3 screens" if n < 3 * h else "== 3 screens" if n == 3 * h else "> 3 screens"))
    return out


def shard(ctx):
    global _CTX
    _CTX = ctx
    try:
        ctx.sweep("hist", _sweep_cases(ctx.scale(6, 9)), nontrivial=lambda c: False, classify=_sweep_classes,
                  exhaustive_name="small-views-every-position")
        if ctx.failure is not None:
            return
        ctx.sweep("hist", _roundtrip_cases(ctx.scale(5, 8)), nontrivial=lambda c: False, classify=_sweep_classes,
                  exhaustive_name="size-round-trips-canvases-held")
        if ctx.failure is not None:
            return
        ctx.sweep("hist", _pageswitch_cases(ctx.scale(4, 6)), nontrivial=lambda c: False, classify=_sweep_classes,
                  exhaustive_name="page-switches-every-decoration")
        if ctx.failure is not None:
            return
        ctx.given("hist", _case(ctx.scale(30, 60)), ctx.scale(400, 8000), nontrivial=lambda c: False, classify=_classes)
    finally:
        _CTX = None


# ---------------------------------------------------------------------------------------------
# known findings (active only when listed with status "known")


KNOWN = {
    # Scrollable.render returns early when the content fits and never resets/clamps _trim_top
    "C20-stale-position-when-content-fits": lambda sub, case, v: sub == "hist"
    and v.clause == "position-reported:content-fits"
    and case["kind"] in ("scrollable", "sb_scrollable"),
    # ScrollBar.render: top_height forced to 1 although maxrow - thumb_height == 0
    # ScrollBar relative mode (ListBox with more than 3*rows items) positions the thumb by item index only
    "C20-relative-scrollbar-first-item-partly-visible": lambda sub, case, v: sub == "hist"
    and v.clause == "thumb-top-iff-first-row:relative-mode-first-item-partly-visible"
    and case["kind"] == "sb_listbox",
    # relative mode again: the thumb length is the share of *items* in view, so with items of different heights it
    # changes while scrolling and its top can move up although the position grew
    "C20-relative-scrollbar-thumb-resizes": lambda sub, case, v: sub == "hist"
    and v.clause == "thumb-monotone:relative-mode-thumb-resized"
    and case["kind"] == "sb_listbox",
    "C20-scrollbar-thumb-fills-bar-scrolled": lambda sub, case, v: sub == "hist"
    and v.clause == "bar-render-raises:WidgetError:thumb-fills-bar"
    and case["kind"] in ("sb_scrollable", "sb_listbox"),
    # ListBox defect (C07's subject) reached through ScrollBar.keypress: page down/up with the focus on an
    # unselectable item while a selectable one is in view -> change_focus(offset_inset=-1)
    "C20-listbox-page-key-invalid-offset-inset": lambda sub, case, v: sub == "hist"
    and v.clause in ("listbox-raises:ListBoxError:key:page down", "listbox-raises:ListBoxError:key:page up")
    and "Invalid offset_inset" in v.message
    and case["kind"] == "sb_listbox",
}
