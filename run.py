#!/venv/bin/python
"""Single entry point:  run.py <Cxx> --tier quick|thorough [--replay FILE]"""
import os
import sys

ROOT = os.path.dirname(os.path.abspath(__file__))
REPO = os.environ.get("VERIF_REPO", "/repo")
sys.path.insert(0, ROOT)
sys.path.insert(0, REPO)

from vlib.runner import main  # noqa: E402

if __name__ == "__main__":
    sys.exit(main())
