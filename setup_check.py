#!/venv/bin/python
"""MANIFEST.setup_cmd: offline setup.  Makes sure hypothesis is importable in /venv and
atheris is available under /verif/.deps (used only by the thorough fuzz targets)."""
import importlib.util
import os
import subprocess
import sys

ROOT = os.path.dirname(os.path.abspath(__file__))
WHEELS = "/opt/veriftools/wheels"


def pip(*args):
    cmd = [sys.executable, "-m", "pip", "install", "--no-index", "--find-links", WHEELS, *args]
    print("+", " ".join(cmd), flush=True)
    return subprocess.call(cmd)


def main():
    if importlib.util.find_spec("hypothesis") is None:
        if pip("hypothesis") != 0:
            print("could not install hypothesis", file=sys.stderr)
            return 1
    deps = os.path.join(ROOT, ".deps")
    if not os.path.isdir(os.path.join(deps, "atheris")):
        os.makedirs(deps, exist_ok=True)
        if pip("--target", deps, "atheris") != 0:
            print("atheris not installed; the thorough fuzz targets will be skipped", file=sys.stderr)
    print("setup ok")
    return 0


if __name__ == "__main__":
    sys.exit(main())
