#!/venv/bin/python
"""Refresh the generated tables of DESIGN.md (between <!-- BEGIN:x --> / <!-- END:x --> markers) from
known_findings*.json, seeded/*/meta.json and mutants/RESULTS.json."""
import glob, json, os, re, sys
ROOT = os.path.dirname(os.path.abspath(__file__))

def findings():
    sys.path.insert(0, ROOT)
    from vlib.runner import load_findings
    rows = load_findings()
    out = ["| property | id | status | what fails |", "|---|---|---|---|"]
    for f in sorted(rows, key=lambda f: (f["property"], f["status"], f["id"])):
        st = f["status"] + (f" `{f['commit']}`" if f.get("commit") else "")
        out.append(f"| {f['property']} | {f['id']} | {st} | {f['what'].replace('|', '/')} |")
    nk = sum(1 for f in rows if f["status"] == "known")
    out.append("")
    out.append(f"{len(rows)} root causes: {len(rows) - nk} repaired by `fix:` commits in /repo, {nk} recorded as known findings.")
    return "\n".join(out)

def seeds():
    out = ["| seed | files changed | what it needs (from the author's notes) | result of the property's quick check |", "|---|---|---|---|"]
    n = c = 0
    for d in sorted(glob.glob(os.path.join(ROOT, "seeded", "*", "meta.json"))):
        m = json.load(open(d))
        files = ", ".join(ln.split("|")[0].strip().replace("urwid/", "") for ln in m.get("files_changed", []) if "|" in ln)
        needs = m.get("summary") or ""
        if not needs:
            txt = m.get("needs_to_manifest", "")
            mm = re.search(r"(?im)^\W*(?:\*\*)?(?:what it needs|needs|trigger|manifest)[^\n:]*:?\**\s*(.+)", txt)
            needs = (mm.group(1) if mm else txt.strip().split("\n")[0])[:220]
        res = "; ".join(f"{k.split(':')[0]} {v['verdict']}" for k, v in sorted(m.get("checks", {}).items()) if k.endswith(":quick"))
        n += 1
        c += "caught" in res
        out.append(f"| {m['id']} | {files} | {needs.replace('|', '/')} | {res} |")
    out.append("")
    out.append(f"{c} of {n} seeded changes are caught by the quick tier of a registered check.")
    return "\n".join(out)

def mutants():
    p = os.path.join(ROOT, "mutants", "RESULTS.json")
    if not os.path.exists(p):
        return "(not run yet)"
    r = json.load(open(p))
    by = {}
    for k, v in sorted(r.items()):
        by.setdefault(k.split("/")[0], []).append((k.split("/")[1], v["verdict"]))
    out = ["| property | mutants (quick tier verdict) |", "|---|---|"]
    for prop, lst in sorted(by.items()):
        out.append(f"| {prop} | " + ", ".join(f"{n} ({v})" for n, v in lst) + " |")
    k = sum(1 for v in r.values() if v["verdict"] == "killed")
    out.append("")
    out.append(f"{k} of {len(r)} planted mutants killed by the quick tier.")
    return "\n".join(out)

def main():
    p = os.path.join(ROOT, "DESIGN.md")
    s = open(p).read()
    for name, fn in (("FINDINGS", findings), ("SEEDS", seeds), ("MUTANTS", mutants)):
        a, b = f"<!-- BEGIN:{name} -->", f"<!-- END:{name} -->"
        if a in s and b in s:
            s = s[: s.index(a) + len(a)] + "\n" + fn() + "\n" + s[s.index(b):]
        else:
            print("marker missing:", name)
    open(p, "w").write(s)

if __name__ == "__main__":
    main()
