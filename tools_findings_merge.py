#!/venv/bin/python
"""Write known_findings.json = union of known_findings.d/*.json and the entries already in known_findings.json
(by id; fragments win).  The checks read both; this file is the single committed list a reader can open."""
import json, os, sys
ROOT = os.path.dirname(os.path.abspath(__file__))
sys.path.insert(0, ROOT)
from vlib.runner import load_findings
fs = sorted(load_findings(), key=lambda f: (f["property"], f["status"], f["id"]))
out = {
    "comment": "Genuine defects of urwid found by the checks. status=known: still present, the check prints KNOWN-FINDING and keeps searching past it (predicate in checks/<module>.py KNOWN[id]); status=fixed: repaired by the named fix: commit in /repo, suppresses nothing (its replay is part of the regression tier). Working copies per property: known_findings.d/.",
    "findings": fs,
}
json.dump(out, open(os.path.join(ROOT, "known_findings.json"), "w"), indent=1, ensure_ascii=False)
print(len(fs), "findings;", sum(f["status"] == "known" for f in fs), "known")
