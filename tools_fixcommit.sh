#!/bin/sh
# tools_fixcommit.sh "<commit message>" : run the pinned suite on /repo's working tree; commit all changes if 106 pass
cd /repo || exit 2
out=$(/venv/bin/python -m pytest -q -p no:cacheprovider --timeout=900 --continue-on-collection-errors 2>&1 | tail -1)
echo "$out"
case "$out" in
  *"1 failed, 106 passed"*"3 errors"*) git commit -q -am "$1" && git log --oneline | head -1 ;;
  *) echo "suite changed: NOT committed"; exit 1 ;;
esac
