#!/venv/bin/python
"""Regenerate MANIFEST.json from the table below and validate it against the schema.
Only properties whose check module exists AND is listed in CLAIMED are registered; all others
go to not_applicable with a reason."""
import json
import os
import sys

ROOT = os.path.dirname(os.path.abspath(__file__))
sys.path.insert(0, ROOT)
from vlib.runner import CHECKS  # noqa: E402

PY = "/venv/bin/python"

# property -> (level, technique, level text, level note, design ref)
CLAIMED = {
    "C16": (
        "exploration",
        "exhaustive enumeration of single list operations + Hypothesis operation sequences, model-based (built-in list + cell-tracking focus rule)",
        "Every single operation with every argument on lists of size <= 5 (6 thorough) and every initial focus is compared with a built-in list and an independent focus rule; Hypothesis sequences of <= 30 operations cover histories on MonitoredList, MonitoredFocusList, both list walkers and Pile.contents. Bounded exhaustive + random beyond, never a proof.",
        "Trusts CPython's list as the reference; new items passed as list/tuple; sizes and sequence lengths are cost bounds.",
        "DESIGN.md section 3, C16",
    ),
}

NOT_YET = "check not built yet in this round (planned in DESIGN.md section 3); not claimed until its check is registered"


def main():
    checks, na = [], []
    for prop in sorted(CHECKS):
        mod = os.path.join(ROOT, "checks", CHECKS[prop] + ".py")
        if prop in CLAIMED and os.path.exists(mod):
            level, technique, text, note, ref = CLAIMED[prop]
            checks.append(
                {
                    "property_id": prop,
                    "quick_cmd": f"{PY} run.py {prop} --tier quick",
                    "thorough_cmd": f"{PY} run.py {prop} --tier thorough",
                    "evidence_file": f"/verif/evidence/{prop}.json",
                    "replay_cmd_template": f"{PY} run.py {prop} --replay {{path}}",
                    "engine": "pbt",
                    "level_claimed": {"category": level, "text": text, "design_ref": ref},
                    "level_note": note,
                    "technique": technique,
                }
            )
        else:
            na.append({"property_id": prop, "reason": NOT_YET})
    manifest = {
        "version": 1,
        "setup_cmd": f"{PY} setup_check.py",
        "hooks": {
            "guard": "URWID_VERIF",
            "enable": "no source hooks: urwid is pure Python and is imported from /repo's working tree (VERIF_REPO overrides the path); all observation points are public API",
            "baseline_off_cmd": "cd /repo && /venv/bin/python -m pytest -ra -q -p no:cacheprovider --timeout=900 --continue-on-collection-errors",
            "source_commits": [],
            "add_only": True,
        },
        "engines": [
            {
                "name": "pbt",
                "path": "/verif/run.py",
                "serves_properties": [c["property_id"] for c in checks],
                "kind_free_text": "Hypothesis 6.168 property-based / model-based testing and exhaustive bounded enumeration, sharded over 16 fresh processes; atheris coverage-guided fuzzing for byte-level targets in the thorough tier",
            }
        ],
        "checks": checks,
        "not_applicable": na,
        "notes": "Every check: exit 0 = held on everything explored (KNOWN-FINDING lines for recorded defects), exit 1 + VIOLATION line, exit 2 = harness error. Runs are a pure function of the tree and VERIF_SEED.",
    }
    with open(os.path.join(ROOT, "MANIFEST.json"), "w") as f:
        json.dump(manifest, f, indent=1)
        f.write("\n")
    try:
        import jsonschema

        with open("/root/.vp/MANIFEST.schema.json") as f:
            jsonschema.validate(manifest, json.load(f))
        print("MANIFEST.json valid;", len(checks), "checks,", len(na), "not_applicable")
    except ImportError:
        print("jsonschema not importable here; wrote MANIFEST.json unvalidated")


if __name__ == "__main__":
    main()
