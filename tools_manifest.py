#!/venv/bin/python
"""Regenerate MANIFEST.json from the table below and validate it against the schema.
Only properties whose check module exists AND is listed in CLAIMED are registered; all others
go to not_applicable with a reason."""
import json
import os
import sys

ROOT = os.path.dirname(os.path.abspath(__file__))
sys.path.insert(0, ROOT)
from vlib.runner import CHECKS  # noqa: E402

PY = "/venv/bin/python"

# property -> (level, technique, level text, level note, design ref)
def _e(level, technique, text, note, prop):
    return (level, technique, text, note, f"DESIGN.md section 3, {prop}")


BOUND = " Generated-input search within stated cost bounds (sizes, depths, history lengths); it never establishes absence."
CLAIMED = {
    "C01": _e("exploration",
              "Hypothesis type-directed widget-tree generation x sizes x modes + deterministic sweep; validity-predicate oracle (size contract, independent column-width table)",
              "Widget trees of every bundled leaf/decoration/container class are generated type-directed by sizing mode and rendered in every mode they report, at sizes 1..40 x 1..20, both focus values, three encodings; the canvas size contract, row widths (by an independent width table) and cursor containment are checked." + BOUND,
              "Trusts the wcwidth table as the Unicode width table; tree depth <= 4 (6 thorough).", "C01"),
    "C02": _e("exploration",
              "Hypothesis expression trees of canvas operations; model-based oracle (cell-grid reference model), operand-immutability snapshots, content_delta round trip",
              "Random expressions over CanvasCombine/Join/Overlay, pad/trim, attribute maps on text/solid/blank leaves are evaluated on urwid canvases and on an independent rows x cols cell grid and compared cell by cell incl. cursor and pop-up coordinates; operands are snapshotted; content_delta is applied to the old grid and compared with the new one." + BOUND,
              "The cell-grid model (vlib/cells.py) is the trusted reference.", "C02"),
    "C03": _e("exploration",
              "exhaustive enumeration of short strings x widths x wrap x align x encodings + Hypothesis long texts; validity-predicate oracle over the layout structure, cross-checked with rows()/render()",
              "Every string of length <= 5 (6-7 thorough) over a 6-letter alphabet per encoding at widths 1..8 in all wrap/align modes, plus random longer texts, is laid out; order, no duplication, allowed omissions, fit, fill ('any'), break rule ('space'), alignment padding, ellipsis, row count and canvas text are checked against an oracle independent of urwid's width arithmetic." + BOUND,
              "Custom TextLayout classes and widths > 30 are not explored.", "C03"),
    "C04": _e("exploration",
              "Hypothesis draw/clear/resize histories on raw_display.Screen; model-based oracle (independent reference VT100/xterm interpreter) + differential against a full-repaint twin; HTML output parsed and compared",
              "Histories of draw_screen / clear / resize / palette and terminal-property changes on a raw Screen writing to a capture stream are interpreted by an independent reference terminal; every cell's glyph and attributes, the cursor, absence of scrolling, and equality with a fully repainting twin screen are checked; HtmlGenerator output is parsed and compared row by row." + BOUND,
              "Faithful up to the reference terminal model (vlib/vtmodel.py, xterm semantics); screen sizes 1..12 x 1..6.", "C04"),
    "C05": _e("exploration",
              "grammar-based Hypothesis byte streams x fragmentations x timeouts + exhaustive sweeps of the key table + atheris coverage-guided fuzzing (thorough); independent protocol decoder, metamorphic fragmentation relation, raw-byte conservation",
              "Byte streams from a grammar of key sequences, mouse reports, cursor reports, multi-byte characters and garbage are fed to Screen.parse_input whole and under generated fragmentations with completion timeouts; decoded events are compared with an independent decoder written from the xterm documentation, with the unfragmented decoding, and the raw bytes must be conserved." + BOUND,
              "The explicit cut list replaces real read() scheduling.", "C05"),
    "C06": _e("exploration",
              "Hypothesis operation histories on a cached/uncached twin pair of widget trees; differential oracle + snapshot immutability of handed-out canvases",
              "Histories of render/rows calls, keypresses, mouse presses, public mutations of any node, contents edits and canvas drops + gc are applied to two identical trees, one rendering through the canvas cache and one with fetch/store patched out; content, cursor and rows must agree after every step and every canvas handed out must keep its snapshotted content." + BOUND,
              "Only documented public mutators are in the domain.", "C06"),
    "C07": _e("exploration",
              "Hypothesis operation histories (keys, mouse, resize, walker edits) on ListBox; history invariant against the concatenation of the items' own renders",
              "After every step the rendered ListBox must be a gap-free window of the vertical concatenation of its items' own renders that contains the focus item, with blank space only below the last item when everything fits, the cursor translated correctly, and button-1 presses focusing the item under the pointer." + BOUND,
              "wrap_around walkers are outside the quantifier.", "C07"),
    "C08": _e("exploration",
              "Hypothesis operation histories on nested containers with probe leaves; history invariants against a model tree (focus validity, key routing within the focus path, focus-path round trip)",
              "Histories of keys, clicks, focus assignments (valid and invalid), set_focus_path and contents mutations on nestings of Pile/Columns/GridFlow/Frame/Overlay/ListBox with logging probe leaves; after every step focus validity, IndexError contracts, key routing, unchanged unhandled keys, arrow-key selectability, selectable() after contents assignment, focus-only rendering and focus-path round trips are checked." + BOUND,
              "Invalid positions are generated within the position type (int / part name); TreeListBox is not anchored.", "C08"),
    "C09": _e("exploration",
              "Hypothesis fitted widget trees with glyph-painting probe leaves, every cell of the rendered area visited; agreement oracle between render, get_cursor_coords, mouse_event and move_cursor_to_coords (+ twin tree)",
              "Trees over the cursor-protocol widgets are rendered at sizes that satisfy the fit precondition (verified on the render); get_cursor_coords must equal the rendered cursor, a mouse event on every cell of a leaf must reach exactly that leaf with leaf-relative coordinates, and move_cursor_to_coords must succeed exactly when the leaf of a twin tree accepts the translated cell, leaving the cursor on the requested row." + BOUND,
              "Cells in margins, dividers and unselectable children are not asserted.", "C09"),
    "C10": _e("exploration",
              "Hypothesis key/click histories on Edit, IntEdit, IntegerEdit, FloatEdit; model-based oracle (reference editor + display map) and signal-log invariant",
              "Key and click sequences are applied to Edit widgets (str/bytes, wide/combining text, all wrap modes) and to a reference editor model; text, cursor position, vertical movement by display map, rendered cursor cell, change/postchange signal chain and unhandled keys are compared after every step; numeric edits are checked for their alphabet invariant." + BOUND,
              "In clip mode only row change and validity of vertical moves are asserted.", "C10"),
    "C11": _e("exploration",
              "exhaustive enumeration over all Unicode scalar values, all 1-2 byte sequences and all short strings over class representatives + Hypothesis; algebraic laws, str/bytes differential, independent width table",
              "Every Unicode scalar value (str and UTF-8 bytes), every 1- and 2-byte sequence in wide and narrow modes and every short concatenation of class representatives is pushed through the width, stepping, position and trim functions; widths are compared with an independent table, additivity, inverse stepping, boundary and trim-padding laws and str/bytes agreement are asserted." + BOUND,
              "Offsets inside a character are outside the callers' contract and not generated.", "C11"),
    "C12": _e("fault_enumeration",
              "fault enumeration: every callback invocation index x exception kind x six event loops x screen kinds on a pty, sessions from a seeded generator; call-order log, exception identity and terminal/termios/signal restoration oracles",
              "Scripted sessions (keys, mouse, resize, alarms, pipe/file watches) run on a real raw Screen attached to a pty under every bundled event loop; for every callback invocation index an ExitMainLoop or a foreign exception is injected; call order, exit behaviour, screen stopped, termios, signal handlers and terminal modes (decoded from the pty output) are checked after run().",
              "The schedule is the scripted order; kernel-level signal/read races are not enumerated. GLib loop not installed.", "C12"),
    "C13": _e("exploration",
              "Hypothesis-generated callback programs on SelectEventLoop under a virtual clock and on all six loops in real time; model-based oracle (reference scheduler)",
              "Programs of alarms, watches, idle callbacks, removals from callbacks, writes and exceptions are run on SelectEventLoop with fake time/selectors (all relative orders reachable) and on select/asyncio/tornado/twisted/trio/zmq in forked children; exactly-once alarms, removal semantics, due order, watch-after-remove, idle-before-wait and exception propagation are compared with a reference scheduler." + BOUND,
              "Real-loop timing is checked only as order and one-sided bounds with tolerances.", "C13"),
    "C14": _e("exploration",
              "exhaustive enumeration of short connect/disconnect/emit histories x handler behaviours + Hypothesis histories with GC points; list model of connections, weakref liveness",
              "All canonical histories up to length 4-6 over 2 senders x 2 names x 3 handlers with every assignment of handler behaviours, all argument shapes, and random longer histories with deletion + gc of weak arguments are compared with a list model: exactly-once delivery in connection order, argument order, result, no delivery after disconnect or death, no strong references." + BOUND,
              "Nothing is asserted about handlers connected or disconnected during the emit they occur in.", "C14"),
    "C15": _e("exploration",
              "grammar-based Hypothesis byte streams x resizes x chunking (+ atheris in thorough); robustness invariants, differential against an independent reference VT100, scrollback model",
              "Byte streams of well-formed and malformed control sequences are fed to vterm.TermCanvas at sizes 1..20 x 1..10 with resizes and arbitrary chunking: never raises, grid shape, cursor and region inside, well-formed replies; on the property's VT100 subset the grid, colours and cursor are compared with an independent reference terminal after every unit; tagged lines are tracked through the scrollback." + BOUND,
              "Faithfulness is relative to vlib/vtmodel.py on the stated subset; parameters above 10^5 not generated (cost).", "C15"),
    "C16": _e("exploration",
              "exhaustive enumeration of single list operations + Hypothesis operation sequences, model-based (built-in list + cell-tracking focus rule)",
              "Every single operation with every argument on lists of size <= 5 (6 thorough) and every initial focus is compared with a built-in list and an independent focus rule; Hypothesis sequences of <= 30 operations cover histories on MonitoredList, MonitoredFocusList, both list walkers and Pile.contents. Bounded exhaustive + random beyond, never a proof.",
              "Trusts CPython's list as the reference; new items passed as list/tuple; sizes and sequence lengths are cost bounds.", "C16"),
    "C17": _e("exploration",
              "exhaustive short tagged strings + Hypothesis nested markup x layout x attribute-map chains x palettes; per-character reference walk, map composition law, SGR decoded by a reference terminal",
              "Per displayed character the canvas attribute is compared with the innermost enclosing tag computed by an independent walk of the markup (under wrapping, clipping, ellipsis, alignment and three encodings); chains of AttrMap/AttrWrap/fill_attr are compared with the composition law; palette entries at every colour depth are drawn by a raw Screen and the SGR output decoded by an independent reference terminal." + BOUND,
              "Palette expectations are parsed from the documented grammar by the harness.", "C17"),
    "C18": _e("exploration",
              "exhaustive enumeration of the colour grammar (all tokens, settings subsets/orders, depths; 24-bit sweep in thorough) + Hypothesis malformed strings; round trip, nearest-neighbour predicate, independent xterm tables, error-type predicate",
              "Every colour token and settings combination at every depth is parsed and described back (round trip, idempotence, equality/hash), mapped values are checked to be nearest by an independent xterm palette table, and malformed strings must raise AttrSpecError or round-trip leniently." + BOUND,
              "xterm 256/88 colour tables are transcribed in the harness and trusted.", "C18"),
    "C19": _e("exploration",
              "exhaustive enumeration over small integer configurations + Hypothesis beyond; arithmetic invariants and probes recording handed-down sizes",
              "Every small configuration of Columns, box Pile, Padding, Filler, Overlay and GridFlow options x available size is enumerated: non-negative sizes, own-size-or-nothing, focus kept, exact fill, rounding-aware proportionality, margin arithmetic and the sizes actually handed to probe children are asserted." + BOUND,
              "Proportionality uses the rounding-aware bound stated in DESIGN.md.", "C19"),
    "C20": _e("exploration",
              "Hypothesis operation histories on Scrollable / ScrollBar over flow, fixed and ListBox bodies; slice-of-full-render model and scrollbar geometry predicates",
              "Histories of keys, wheel events, set_scrollpos, resizes and content changes: the Scrollable canvas must equal the rows p..p+h of the wrapped widget's full render with p clamped and reported; ScrollBar thumb geometry (sum, minimum, top iff p == 0, monotone) and the width handed to the body are checked." + BOUND,
              "Views 1..20 x 1..10.", "C20"),
}

# properties whose check is registered now (others are listed under not_applicable until their check lands)
READY = set(os.environ.get("VERIF_READY", "").split()) or {
    "C01", "C02", "C03", "C04", "C05", "C06", "C07", "C08", "C09", "C10", "C11", "C12", "C13", "C14", "C15", "C16", "C17", "C18", "C19", "C20",
}

NOT_YET = "check not built yet in this round (planned in DESIGN.md section 3); not claimed until its check is registered"


def main():
    checks, na = [], []
    for prop in sorted(CHECKS):
        mod = os.path.join(ROOT, "checks", CHECKS[prop] + ".py")
        if prop in CLAIMED and prop in READY and os.path.exists(mod):
            level, technique, text, note, ref = CLAIMED[prop]
            checks.append(
                {
                    "property_id": prop,
                    "quick_cmd": f"{PY} run.py {prop} --tier quick",
                    "thorough_cmd": f"{PY} run.py {prop} --tier thorough",
                    "evidence_file": f"/verif/evidence/{prop}.json",
                    "replay_cmd_template": f"{PY} run.py {prop} --replay {{path}}",
                    "engine": "pbt",
                    "level_claimed": {"category": level, "text": text, "design_ref": ref},
                    "level_note": note,
                    "technique": technique,
                }
            )
        else:
            na.append({"property_id": prop, "reason": NOT_YET})
    manifest = {
        "version": 1,
        "setup_cmd": f"{PY} setup_check.py",
        "hooks": {
            "guard": "URWID_VERIF",
            "enable": "no source hooks: urwid is pure Python and is imported from /repo's working tree (VERIF_REPO overrides the path); all observation points are public API",
            "baseline_off_cmd": "cd /repo && /venv/bin/python -m pytest -ra -q -p no:cacheprovider --timeout=900 --continue-on-collection-errors",
            "source_commits": [],
            "add_only": True,
        },
        "engines": [
            {
                "name": "pbt",
                "path": "/verif/run.py",
                "serves_properties": [c["property_id"] for c in checks],
                "kind_free_text": "Hypothesis 6.168 property-based / model-based testing and exhaustive bounded enumeration, sharded over 16 fresh processes; atheris coverage-guided fuzzing for byte-level targets in the thorough tier",
            }
        ],
        "checks": checks,
        "not_applicable": na,
        "notes": "Every check: exit 0 = held on everything explored (KNOWN-FINDING lines for recorded defects), exit 1 + VIOLATION line, exit 2 = harness error. Runs are a pure function of the tree and VERIF_SEED (budgets are CPU seconds per shard; running out of budget, or a case starved of CPU, makes a run inconclusive, never a violation). Beyond the core domain named per check, every check also generates the public spellings of each operation, histories of process-wide state (encoding switches, repeated run() calls, re-registration), re-entrant callbacks and falsy-but-valid values, as listed per check in DESIGN.md sections 8 and 9.",
    }
    with open(os.path.join(ROOT, "MANIFEST.json"), "w") as f:
        json.dump(manifest, f, indent=1)
        f.write("\n")
    try:
        import jsonschema

        with open("/root/.vp/MANIFEST.schema.json") as f:
            jsonschema.validate(manifest, json.load(f))
        print("MANIFEST.json valid;", len(checks), "checks,", len(na), "not_applicable")
    except ImportError:
        print("jsonschema not importable here; wrote MANIFEST.json unvalidated")


if __name__ == "__main__":
    main()
