#!/venv/bin/python
"""tools_mark_fixed.py <finding-id> <commit> : mark a finding in known_findings.d as fixed, rename its replay known_* -> fixed_*"""
import glob, json, os, subprocess, sys
ROOT = os.path.dirname(os.path.abspath(__file__))
fid, commit = sys.argv[1], sys.argv[2]
for p in glob.glob(os.path.join(ROOT, "known_findings.d", "*.json")):
    d = json.load(open(p))
    hit = False
    for f in d["findings"]:
        if f["id"] == fid:
            f["status"] = "fixed"
            f["commit"] = commit
            old = f["example_replay"]
            new = old.replace("/known_", "/fixed_")
            if old != new and os.path.exists(os.path.join(ROOT, old)):
                subprocess.check_call(["git", "-C", ROOT, "mv", old, new])
            f["example_replay"] = new
            hit = True
    if hit:
        json.dump(d, open(p, "w"), indent=1, ensure_ascii=False)
        open(p, "a").write("\n")
        print("marked", fid, "in", p)
        break
else:
    sys.exit("not found: " + fid)
