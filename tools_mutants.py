#!/venv/bin/python
"""Sensitivity self-test: apply every mutants/<Cxx>/*.patch to a scratch worktree of /repo HEAD and run the
property's quick check against it (VERIF_REPO); expect exit 1.  Results -> mutants/RESULTS.json + table.
  tools_mutants.py [Cxx ...] [--jobs N]
Mutants are deliberate small breakages written together with each check (see DESIGN.md 1.6); unlike seeded/ they
are not independent of the checks."""
import json, os, sys, time, glob, subprocess
from concurrent.futures import ThreadPoolExecutor
sys.path.insert(0, os.path.dirname(os.path.abspath(__file__)))
import tools_seed as T

ROOT = T.ROOT

def one(prop, patch):
    name = os.path.basename(patch)[:-6]
    with T.Worktree(f"mut_{prop}_{name}"[:60]) as wt:
        rc, out = T.sh(["git", "apply", patch], cwd=wt)
        if rc:
            return prop, name, "patch-does-not-apply", 0, out[:200]
        t0 = time.monotonic()
        env = dict(os.environ, VERIF_REPO=wt, VERIF_EVIDENCE_DIR=os.path.join(T.SCRATCH, "evidence"),
                   VERIF_SKIP_MUTANT_REPLAYS=os.environ.get("VERIF_SKIP_MUTANT_REPLAYS", ""),
                   VERIF_FOUND_DIR=os.path.join(T.SCRATCH, "found"))
        rc, out = T.sh([T.PY, os.path.join(ROOT, "run.py"), prop, "--tier", "quick"], cwd=ROOT, env=env, timeout=3600)
        wall = round(time.monotonic() - t0, 1)
        msg = ""
        lines = out.splitlines()
        for i, ln in enumerate(lines):
            if ln.startswith("VIOLATION") and i > 0:
                msg = lines[i - 1].strip()[:200]
                break
        verdict = "killed" if rc == 1 else ("survived" if rc == 0 else f"harness-error rc={rc}")
        return prop, name, verdict, wall, msg

def main():
    args = [a for a in sys.argv[1:] if not a.startswith("--")]
    jobs = 1
    if "--jobs" in sys.argv:
        jobs = int(sys.argv[sys.argv.index("--jobs") + 1]); args = [a for a in args if a != str(jobs)]
    props = args or sorted(os.listdir(os.path.join(ROOT, "mutants")))
    work = [(p, f) for p in props if os.path.isdir(os.path.join(ROOT, "mutants", p)) for f in sorted(glob.glob(os.path.join(ROOT, "mutants", p, "*.patch")))]
    rp = os.path.join(ROOT, "mutants", "RESULTS.json")
    results = json.load(open(rp)) if os.path.exists(rp) else {}
    with ThreadPoolExecutor(jobs) as ex:
        for prop, name, verdict, wall, msg in ex.map(lambda a: one(*a), work):
            results[f"{prop}/{name}"] = {"verdict": verdict, "wall_s": wall, "first_violation": msg,
                                         "verif_commit": T.sh(["git", "-C", ROOT, "rev-parse", "--short", "HEAD"])[1].strip()}
            print(f"{prop}/{name:45s} {verdict:10s} {wall:6.1f}s {msg[:120]}", flush=True)
            json.dump(results, open(rp, "w"), indent=1, sort_keys=True)
    return 0

if __name__ == "__main__":
    sys.exit(main())
