#!/bin/sh
# run the pinned suite (106 stable doctests + 4 always-failing) against /repo
cd /repo && /venv/bin/python -m pytest -q -p no:cacheprovider --timeout=900 --continue-on-collection-errors 2>&1 | tail -8
