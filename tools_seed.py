#!/venv/bin/python
"""Seeded breakages (changes to urwid written by independent sub-agents that break one property while
the pinned suite stays green).

  tools_seed.py import <Cxx> <src_dir> [<name>]   verify a candidate (patch.diff, demo.py, notes.md) in a scratch
                                                  worktree and, if confirmed, keep it as seeded/<Cxx>-<name>/
  tools_seed.py run [<seed-id> ...] [--tier quick] [--props Cxx,Cyy]
                                                  run the property's check (or the listed ones) against each kept
                                                  seed in a scratch worktree (VERIF_REPO) and record the outcome in
                                                  seeded/<id>/meta.json; prints a table.

Nothing here touches /repo's working tree: a detached worktree under $VERIF_SCRATCH (default /tmp/verif_scratch)
is created and removed for every run.
"""
from __future__ import annotations

import json
import os
import re
import shutil
import subprocess
import sys
import time

ROOT = os.path.dirname(os.path.abspath(__file__))
REPO = "/repo"
SCRATCH = os.environ.get("VERIF_SCRATCH", "/tmp/verif_scratch")
PY = "/venv/bin/python"
SUITE = [PY, "-m", "pytest", "-q", "-p", "no:cacheprovider", "--timeout=900", "--continue-on-collection-errors"]


def sh(cmd, cwd=None, env=None, timeout=3600):
    p = subprocess.run(cmd, cwd=cwd, env=env, stdout=subprocess.PIPE, stderr=subprocess.STDOUT, text=True, timeout=timeout)
    return p.returncode, p.stdout


class Worktree:
    def __init__(self, tag):
        self.path = os.path.join(SCRATCH, f"wt_{tag}_{os.getpid()}")

    def __enter__(self):
        os.makedirs(SCRATCH, exist_ok=True)
        rc, out = sh(["git", "-C", REPO, "worktree", "add", "--detach", self.path, "HEAD"])
        if rc:
            raise RuntimeError(out)
        return self.path

    def __exit__(self, *a):
        sh(["git", "-C", REPO, "worktree", "remove", "--force", self.path])
        shutil.rmtree(self.path, ignore_errors=True)
        sh(["git", "-C", REPO, "worktree", "prune"])


def suite_ok(wt):
    rc, out = sh(SUITE, cwd=wt)
    tail = out.strip().splitlines()[-1] if out.strip() else ""
    m = re.search(r"(\d+) passed", tail)
    f = re.search(r"(\d+) failed", tail)
    e = re.search(r"(\d+) errors?", tail)
    ok = bool(m) and int(m.group(1)) == 106 and (int(f.group(1)) if f else 0) == 1 and (int(e.group(1)) if e else 0) == 3
    return ok, tail


def demo(wt, path):
    env = dict(os.environ, PYTHONPATH=wt, PYTHONDONTWRITEBYTECODE="1")
    try:
        rc, out = sh([PY, path], cwd=wt, env=env, timeout=600)
    except subprocess.TimeoutExpired:
        return 124, "timeout"
    return rc, out[-1500:]


def cmd_import(prop, src, name=None):
    """name: suffix of the seed id (default: basename of src; wave-2 seeds are imported as 4,5,6)"""
    name = name or os.path.basename(os.path.normpath(src))
    sid = f"{prop}-{name}"
    patch = os.path.join(src, "patch.diff")
    dpath = os.path.join(src, "demo.py")
    ran = []
    with Worktree(sid) as wt:
        rc0, out0 = demo(wt, dpath)
        ran.append(f"demo on unchanged tree: exit {rc0}")
        rc, out = sh(["git", "apply", patch], cwd=wt)
        if rc:
            print(f"{sid}: patch does not apply: {out}")
            return 1
        ok, tail = suite_ok(wt)
        ran.append(f"pinned suite with patch: {tail}")
        rc1, out1 = demo(wt, dpath)
        ran.append(f"demo with patch: exit {rc1}")
        rcu, outu = sh([PY, "-c", "import urwid, sys; print(urwid.__file__)"], cwd=wt, env=dict(os.environ, PYTHONPATH=wt))
        files = sh(["git", "diff", "--stat"], cwd=wt)[1].strip().splitlines()
    confirmed = rc0 == 0 and rc1 not in (0, 124) and ok and wt in outu
    print(f"{sid}: demo clean={rc0} patched={rc1} suite_ok={ok} ({tail}) -> {'CONFIRMED' if confirmed else 'REJECTED'}")
    if not confirmed:
        print(out0[-400:], out1[-400:])
        return 1
    dst = os.path.join(ROOT, "seeded", sid)
    os.makedirs(dst, exist_ok=True)
    shutil.copy(patch, os.path.join(dst, "patch.diff"))
    shutil.copy(dpath, os.path.join(dst, "demo.py"))
    notes = os.path.join(src, "notes.md")
    if os.path.exists(notes):
        shutil.copy(notes, os.path.join(dst, "notes.md"))
    needs = ""
    if os.path.exists(notes):
        needs = open(notes).read()[:1500]
    meta = {
        "id": sid,
        "property": prop,
        "origin": "independent sub-agent given only the property text and a scratch worktree",
        "files_changed": files,
        "needs_to_manifest": needs,
        "confirmed": {"what_i_ran": ran, "demo_output_with_patch": out1[-600:]},
        "checks": {},
    }
    json.dump(meta, open(os.path.join(dst, "meta.json"), "w"), indent=1)
    return 0


def cmd_run(ids, tier, props):
    sroot = os.path.join(ROOT, "seeded")
    ids = ids or sorted(d for d in os.listdir(sroot) if os.path.exists(os.path.join(sroot, d, "meta.json")))
    rows = []
    for sid in ids:
        d = os.path.join(sroot, sid)
        meta = json.load(open(os.path.join(d, "meta.json")))
        plist = props or [meta["property"]]
        with Worktree(sid) as wt:
            rc, out = sh(["git", "apply", os.path.join(d, "patch.diff")], cwd=wt)
            if rc:
                print(f"{sid}: patch no longer applies: {out[:300]}")
                rows.append((sid, "-", "patch-does-not-apply", 0))
                continue
            for prop in plist:
                t0 = time.monotonic()
                env = dict(os.environ, VERIF_REPO=wt, VERIF_EVIDENCE_DIR=os.path.join(SCRATCH, "evidence"),
                           VERIF_SKIP_MUTANT_REPLAYS="1", VERIF_FOUND_DIR=os.path.join(SCRATCH, "found"))
                rc, out = sh([PY, os.path.join(ROOT, "run.py"), prop, "--tier", tier], cwd=ROOT, env=env, timeout=7200)
                wall = time.monotonic() - t0
                vio = [ln for ln in out.splitlines() if ln.startswith("VIOLATION")]
                msg = ""
                lines = out.splitlines()
                for i, ln in enumerate(lines):
                    if ln.startswith("VIOLATION") and i > 0:
                        msg = lines[i - 1].strip()[:300]
                        break
                verdict = "caught" if rc == 1 and vio else ("missed" if rc == 0 else f"harness-error rc={rc}")
                meta.setdefault("checks", {})[f"{prop}:{tier}"] = {
                    "verdict": verdict, "exit": rc, "wall_s": round(wall, 1), "first_violation": msg,
                    "verif_commit": sh(["git", "-C", ROOT, "rev-parse", "--short", "HEAD"])[1].strip(),
                }
                rows.append((sid, prop, verdict, round(wall, 1)))
                print(f"{sid:28s} {prop} {tier:8s} {verdict:10s} {wall:6.1f}s  {msg[:140]}", flush=True)
                if rc not in (0, 1):
                    print(out[-1500:])
                # found_* replays written by a seeded run belong to the seed, not to the unchanged tree
                rdir = os.path.join(ROOT, "replays", prop)
                if os.path.isdir(rdir):
                    for n in os.listdir(rdir):
                        if n.startswith("found_"):
                            os.unlink(os.path.join(rdir, n))
        json.dump(meta, open(os.path.join(d, "meta.json"), "w"), indent=1)
    return 0


def main():
    a = sys.argv[1:]
    if not a:
        print(__doc__)
        return 2
    if a[0] == "import":
        return cmd_import(*a[1:])
    if a[0] == "reverify":
        # seeds are diffs against the HEAD of their day; later fix: commits can make one inapplicable or harmless
        sroot = os.path.join(ROOT, "seeded")
        ids = a[1:] or sorted(d for d in os.listdir(sroot) if os.path.exists(os.path.join(sroot, d, "meta.json")))
        head = sh(["git", "-C", REPO, "rev-parse", "--short", "HEAD"])[1].strip()
        for sid in ids:
            d = os.path.join(sroot, sid)
            meta = json.load(open(os.path.join(d, "meta.json")))
            with Worktree("rv_" + sid) as wt:
                rc0, _ = demo(wt, os.path.join(d, "demo.py"))
                rc, out = sh(["git", "apply", os.path.join(d, "patch.diff")], cwd=wt)
                if rc:
                    status = "patch does not apply"
                else:
                    ok, tail = suite_ok(wt)
                    rc1, _ = demo(wt, os.path.join(d, "demo.py"))
                    status = "valid" if (rc0 == 0 and rc1 not in (0, 124) and ok) else f"demo clean={rc0} patched={rc1} suite_ok={ok}"
            meta["at_head"] = {"repo_head": head, "status": status}
            json.dump(meta, open(os.path.join(d, "meta.json"), "w"), indent=1)
            print(f"{sid:10s} {status}", flush=True)
        return 0
    if a[0] == "report":
        sroot = os.path.join(ROOT, "seeded")
        print("| seed | changed | caught by (tier: verdict, seconds) |")
        print("|---|---|---|")
        for sid in sorted(os.listdir(sroot)):
            mp = os.path.join(sroot, sid, "meta.json")
            if not os.path.exists(mp):
                continue
            meta = json.load(open(mp))
            files = ", ".join(ln.split("|")[0].strip() for ln in meta.get("files_changed", []) if "|" in ln)
            res = "; ".join(f"{k}: {v['verdict']} ({v['wall_s']}s)" for k, v in sorted(meta.get("checks", {}).items()))
            print(f"| {sid} | {files} | {res} |")
        return 0
    if a[0] == "run":
        tier, props, ids = "quick", None, []
        it = iter(a[1:])
        for x in it:
            if x == "--tier":
                tier = next(it)
            elif x == "--props":
                props = next(it).split(",")
            else:
                ids.append(x)
        return cmd_run(ids, tier, props)
    return 2


if __name__ == "__main__":
    sys.exit(main())
