#!/usr/bin/env python3
"""validate MANIFEST.json and evidence/*.json against the schemas (run with python3-vt)"""
import glob, json, sys
import jsonschema
ok = True
m = json.load(open('/verif/MANIFEST.json'))
jsonschema.validate(m, json.load(open('/root/.vp/MANIFEST.schema.json')))
print('MANIFEST ok:', [c['property_id'] for c in m['checks']])
es = json.load(open('/root/.vp/EVIDENCE.schema.json'))
for p in sorted(glob.glob('/verif/evidence/*.json')):
    try:
        e = json.load(open(p)); jsonschema.validate(e, es)
        print(p, 'ok', e['tier'], e['coverage']['evaluations'], e['coverage']['distinct_nontrivial'], e['wall_s'])
    except Exception as ex:
        ok = False; print(p, 'INVALID', str(ex)[:300])
sys.exit(0 if ok else 1)
