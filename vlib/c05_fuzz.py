"""atheris (libFuzzer) target for C05, run as a subprocess by checks/c05_input_decode.py.

usage: python vlib/c05_fuzz.py <corpus dir> -runs=N -seed=S ...   (libFuzzer flags)
env:   VERIF_REPO   tree under test (default /repo)
       C05_FAIL_DIR directory that receives one JSON case per oracle failure
       C05_KNOWN    comma separated ids of the active known findings (skipped and counted)

The fuzz input is mapped to an explicit case by ``c05_input_decode.fuzz_case`` and handed to the same
``check_stream`` oracle the Hypothesis campaign uses.  A failure that does not match an active known
finding is written as a JSON case and re-raised (libFuzzer stops); the parent re-evaluates the case
through ``ctx.evaluate`` so that it becomes an ordinary replay file.
"""
from __future__ import annotations

import json
import os
import sys

ROOT = os.path.dirname(os.path.dirname(os.path.abspath(__file__)))
REPO = os.environ.get("VERIF_REPO", "/repo")
for p in (ROOT, REPO):
    if p in sys.path:
        sys.path.remove(p)
sys.path.insert(0, ROOT)
sys.path.insert(0, REPO)
sys.path.append(os.path.join(ROOT, ".deps"))

import atheris  # noqa: E402

with atheris.instrument_imports(include=["urwid"]):
    import urwid  # noqa: F401
    import urwid.display.escape  # noqa: F401
    import urwid.display.raw  # noqa: F401

from checks import c05_input_decode as c05  # noqa: E402
from vlib.runner import Discard, Violation, innermost_is_urwid, urwid_frame  # noqa: E402

FAIL_DIR = os.environ.get("C05_FAIL_DIR", ".")
ACTIVE = {x for x in os.environ.get("C05_KNOWN", "").split(",") if x}
skipped: dict[str, int] = {}
state = {"n": 0}


def _report():
    # libFuzzer leaves through C exit(): Python atexit handlers never run, so the tally is a file
    with open(os.path.join(FAIL_DIR, "known_skipped.stat"), "w") as f:
        json.dump(skipped, f)


def test_one_input(data: bytes) -> None:
    case = c05.fuzz_case(data)
    if case is None:
        return
    try:
        c05.check_stream(case)
        return
    except Discard:
        return
    except Violation as e:
        v = e
    except Exception as e:  # noqa: BLE001
        if innermost_is_urwid(e):
            v = Violation(f"exception:{type(e).__name__}@{urwid_frame(e)}", f"{type(e).__name__}: {e}")
        else:
            v = Violation("harness-error", repr(e))
    for fid, pred in c05.KNOWN.items():
        if fid in ACTIVE:
            try:
                if pred("stream", case, v):
                    skipped[fid] = skipped.get(fid, 0) + 1
                    _report()
                    return
            except Exception:  # noqa: BLE001
                continue
    state["n"] += 1
    with open(os.path.join(FAIL_DIR, f"fail{state['n']:03d}.json"), "w") as f:
        json.dump(case, f)
    _report()
    raise v


def main():
    import urwid as _u

    real = os.path.realpath(_u.__file__)
    if not real.startswith(os.path.realpath(REPO) + os.sep):
        raise RuntimeError(f"urwid imported from {real}, expected under {REPO}")
    atheris.Setup(sys.argv, test_one_input)
    atheris.Fuzz()


if __name__ == "__main__":
    main()
