"""Cell-grid model of a canvas and the canvas operations on grids (DESIGN.md 2.2).

A grid is a list of rows; a row is a list of cells; a cell is a tuple ``(text, attr, cs)`` where
``text`` is the bytes shown in that column (a double-width character sits in its first column,
zero-width characters ride on the preceding cell) or the CONT marker for the second column of a
double-width character.  Grid operations are plain list slicing; cutting a double-width character
yields one space cell carrying that character's attribute with cs=None.
"""
from __future__ import annotations

from vlib import widths as W

CONT = ("", "<cont>", None)  # second half of a double-width character (attr/cs of first half apply)


class GridError(Exception):
    pass


def is_cont(cell):
    return cell is CONT or (cell[0] == "" and cell[1] == "<cont>")


def blank(attr=None):
    return (b" ", attr, None)


def row_of_runs(runs, mode, cols=None):
    """Expand one content() row [(attr, cs, bytes), ...] into cells."""
    out = []
    lead = b""  # zero-width characters at the very start of the row ride on the first cell
    for attr, cs, text in runs:
        if not isinstance(text, bytes):
            raise GridError(f"content run text is {type(text).__name__}, not bytes: {text!r}")
        if cs in ("0", "U"):
            # alternate character set: one byte, one column
            for i in range(len(text)):
                out.append((lead + text[i : i + 1], attr, cs))
                lead = b""
            continue
        for s, e, w in W.chars(text, mode):
            ch = text[s:e]
            if w == 0:
                k = len(out) - 1
                while k >= 0 and is_cont(out[k]):
                    k -= 1
                if k < 0:
                    lead += ch
                else:
                    out[k] = (out[k][0] + ch, out[k][1], out[k][2])
                continue
            out.append((lead + ch, attr, cs))
            lead = b""
            if w == 2:
                out.append(CONT)
    if cols is not None and len(out) != cols:
        raise GridError(f"row occupies {len(out)} columns, canvas says {cols}: {runs!r}")
    return out


def grid_of(canvas, mode, check=True):
    """Cell grid of a urwid canvas (raises GridError if a row's cells do not add up to cols())."""
    cols = canvas.cols()
    rows = canvas.rows()
    content = list(canvas.content())
    if check and len(content) != rows:
        raise GridError(f"content() yields {len(content)} rows, rows() says {rows}")
    return [row_of_runs(r, mode, cols if check else None) for r in content]


def grid_text(grid):
    return [b"".join(c[0] for c in row if not is_cont(c)) for row in grid]


def normalize(grid):
    """Canonical form for comparison: CONT cells compare equal, text as bytes."""
    out = []
    for row in grid:
        r = []
        for c in row:
            r.append(("", "<cont>", None) if is_cont(c) else (bytes(c[0]), c[1], c[2]))
        out.append(r)
    return out


def diff(a, b):
    """First difference between two grids as a message, or None."""
    a, b = normalize(a), normalize(b)
    if len(a) != len(b):
        return f"row count {len(a)} != {len(b)}"
    for y, (ra, rb) in enumerate(zip(a, b)):
        if len(ra) != len(rb):
            return f"row {y}: {len(ra)} columns != {len(rb)}"
        for x, (ca, cb) in enumerate(zip(ra, rb)):
            if ca != cb:
                return f"cell ({x},{y}): {ca!r} != {cb!r}"
    return None


# ---------------------------------------------------------------------------------------------
# grid operations (the reference semantics of the canvas operations)


def g_cols(grid):
    return len(grid[0]) if grid else 0


def _fix_row_edges(row, left_cut_from, right_cut_from):
    """After slicing: a leading CONT (its first half was cut) or a trailing first half whose CONT
    was cut becomes a space with the character's attribute, cs None."""
    if row and is_cont(row[0]):
        row[0] = (b" ", left_cut_from[1], None)
    if row and right_cut_from is not None:
        row[-1] = (b" ", row[-1][1], None)
    return row


def slice_row(row, start, end):
    """Columns [start, end) of a row with cut double-width characters replaced by spaces."""
    out = list(row[start:end])
    if not out:
        return out
    if is_cont(out[0]):
        # find the first half to the left for its attribute
        k = start - 1
        while k >= 0 and is_cont(row[k]):
            k -= 1
        out[0] = (b" ", row[k][1] if k >= 0 else None, None)
    if end < len(row) and is_cont(row[end]) and not is_cont(out[-1]):
        out[-1] = (b" ", out[-1][1], None)
    return out


def g_pad_trim_lr(grid, left, right, attr=None):
    """left/right > 0 pad with blanks, < 0 trim that many columns."""
    out = []
    for row in grid:
        n = len(row)
        s = -left if left < 0 else 0
        e = n + right if right < 0 else n
        r = slice_row(row, s, e)
        if left > 0:
            r = [blank(attr)] * left + r
        if right > 0:
            r = r + [blank(attr)] * right
        out.append(r)
    return out


def g_pad_trim_tb(grid, top, bottom, attr=None):
    cols = g_cols(grid)
    out = list(grid)
    if top < 0:
        out = out[-top:]
    if bottom < 0:
        out = out[:bottom]
    if top > 0:
        out = [[blank(attr)] * cols for _ in range(top)] + out
    if bottom > 0:
        out = out + [[blank(attr)] * cols for _ in range(bottom)]
    return [list(r) for r in out]


def g_stack(grids):
    """vertical stacking; narrower grids are padded on the right to the widest"""
    cols = max((g_cols(g) for g in grids), default=0)
    out = []
    for g in grids:
        for row in g:
            out.append(list(row) + [blank()] * (cols - len(row)))
    return out


def g_join(grids_widths):
    """horizontal join of (grid, width) pairs; each grid padded on the right to its width and all
    padded at the bottom to the tallest"""
    rows = max((len(g) for g, _ in grids_widths), default=0)
    out = [[] for _ in range(rows)]
    for g, w in grids_widths:
        for y in range(rows):
            if y < len(g):
                row = list(g[y]) + [blank()] * (w - len(g[y]))
            else:
                row = [blank()] * w
            out[y].extend(row)
    return out


def g_overlay(top, bottom, x, y):
    """top placed over bottom at column x, row y"""
    out = []
    tw = g_cols(top)
    for r, row in enumerate(bottom):
        if y <= r < y + len(top):
            left = slice_row(row, 0, x)
            right = slice_row(row, x + tw, len(row))
            out.append(left + list(top[r - y]) + right)
        else:
            out.append(list(row))
    return out


def g_map_attr(grid, mapping):
    """fill_attr_apply: replace attributes found in mapping; None maps via mapping[None]"""
    out = []
    for row in grid:
        r = []
        for c in row:
            if is_cont(c):
                r.append(c)
            else:
                a = c[1]
                try:
                    a = mapping[a] if a in mapping else a
                except TypeError:
                    pass
                r.append((c[0], a, c[2]))
        out.append(r)
    return out
