"""Text alphabets per encoding (DESIGN.md 2.4/2.5): only characters representable in the active
encoding, and in wide mode only characters whose encoded length equals their column width."""
from __future__ import annotations

from hypothesis import strategies as st

ENCODINGS = ["utf-8", "euc-jp", "iso8859-1"]

ASCII = list("abcXYZ09 .-")
CJK = list("漢字日本")
COMBINING = ["́", "̈"]
EMOJI = ["😀"]
LATIN1 = list("éñü")
DEC = list("─│┌┘◆▒")  # DEC special graphics (members of urwid.escape.DEC_SPECIAL_CHARS)

ALPHABET = {
    "utf-8": ASCII * 3 + CJK * 2 + COMBINING * 2 + EMOJI + LATIN1 + DEC,
    "euc-jp": ASCII * 3 + CJK * 3 + DEC,
    "iso8859-1": ASCII * 3 + LATIN1 * 2 + DEC,
}

# classification helpers --------------------------------------------------------------------


def has_wide(t: str) -> bool:
    return any(c in CJK or c in EMOJI for c in t)


def has_zero(t: str) -> bool:
    return any(c in COMBINING for c in t)


def has_dec(t: str) -> bool:
    return any(c in DEC for c in t)


def interesting(t: str) -> bool:
    return has_wide(t) or has_zero(t) or has_dec(t)


def text(enc: str, max_size: int = 10, newlines: bool = True, min_size: int = 0):
    alpha = list(ALPHABET[enc])
    if newlines:
        alpha = alpha + ["\n"]
    return st.lists(st.sampled_from(alpha), min_size=min_size, max_size=max_size).map("".join)


def word(enc: str, max_size: int = 6):
    """non-empty, no newline"""
    return text(enc, max_size=max_size, newlines=False, min_size=1)


ATTRS = ["a1", "a2", "hl"]


def markup(enc: str, max_size: int = 10, newlines: bool = True):
    """JSON markup: a str, or a list of str | [attr, str]"""
    seg = st.one_of(
        text(enc, max_size=max(1, max_size // 2), newlines=newlines),
        st.tuples(st.sampled_from(ATTRS), text(enc, max_size=max(1, max_size // 2), newlines=newlines)).map(list),
    )
    return st.one_of(text(enc, max_size=max_size, newlines=newlines), st.lists(seg, min_size=1, max_size=3))


def build_markup(m, as_bytes: bool = False, enc: str = "utf-8"):
    """JSON markup -> urwid markup (all segments str, or all bytes in `enc` when as_bytes and encodable)"""
    if as_bytes:
        # DEC line-drawing characters have no sound byte form outside UTF-8 (unencodable, or two bytes
        # for one column, which breaks the wide-mode definition "two bytes = two columns"): keep str
        if enc != "utf-8" and has_dec(markup_text(m)):
            as_bytes = False
        else:
            try:
                markup_text(m).encode(enc)
            except UnicodeEncodeError:
                as_bytes = False

    def conv(s):
        return s.encode(enc) if as_bytes else s

    if isinstance(m, str):
        return conv(m)
    out = []
    for seg in m:
        if isinstance(seg, str):
            out.append(conv(seg))
        else:
            out.append((seg[0], conv(seg[1])))
    return out


def markup_text(m) -> str:
    if isinstance(m, str):
        return m
    return "".join(seg if isinstance(seg, str) else seg[1] for seg in m)
