"""JSON-serialisable widget-tree specs, generated type-directed by sizing mode, + build(spec).

A spec is a nested dict {"cls": ..., ...}.  ``widget(mode, depth, enc)`` returns a Hypothesis
strategy of specs whose widget supports sizing mode ``mode`` ("box" | "flow" | "fixed") by the
containers' documented rules, so invalid trees are excluded by construction (DESIGN.md 2.4).
``build(spec, enc)`` constructs fresh widgets each time it is called (twins for differential checks).
"""
from __future__ import annotations

import functools

from hypothesis import strategies as st

import urwid
from vlib import gen_text as T

ALIGN = ["left", "center", "right"]
WRAP = ["space", "any", "clip", "ellipsis"]
VALIGN = ["top", "middle", "bottom"]

_small = st.integers(0, 3)
_bool = st.booleans()


def _d(**kw):
    return st.fixed_dictionaries(kw)


# ---------------------------------------------------------------------------------------------
# leaves


@functools.lru_cache(maxsize=None)
def text_leaf(enc):
    return _d(cls=st.just("Text"), markup=T.markup(enc), bytes=_bool, align=st.sampled_from(ALIGN),
              wrap=st.sampled_from(WRAP))


@functools.lru_cache(maxsize=None)
def text_leaf_visible(enc):
    """Text with at least one visible column (a fixed/packed widget of zero width is degenerate)"""
    return _d(cls=st.just("Text"), markup=st.tuples(st.sampled_from(list("abX9")), T.text(enc, 7)).map("".join),
              bytes=_bool, align=st.sampled_from(ALIGN), wrap=st.sampled_from(WRAP))


@functools.lru_cache(maxsize=None)
def flow_leaves(enc):
    return st.one_of(
        text_leaf(enc),
        text_leaf(enc),
        _d(cls=st.just("Edit"), caption=T.markup(enc, 5), text=T.text(enc, 8), multiline=_bool,
           align=st.sampled_from(ALIGN), wrap=st.sampled_from(["space", "any", "clip"]),
           pos=st.integers(0, 8)),
        _d(cls=st.just("IntEdit"), caption=T.text(enc, 4, newlines=False), default=st.integers(0, 99999)),
        _d(cls=st.just("Button"), label=T.markup(enc, 6)),
        _d(cls=st.just("CheckBox"), label=T.markup(enc, 6), state=st.sampled_from([True, False, "mixed"])),
        _d(cls=st.just("RadioButton"), label=T.markup(enc, 6)),
        _d(cls=st.just("SelectableIcon"), text=T.markup(enc, 6), pos=st.integers(0, 6)),
        _d(cls=st.just("Divider"), char=st.sampled_from([" ", "-", "─", "=", "é" if enc != "euc-jp" else "x"]),
           top=st.integers(0, 2), bottom=st.integers(0, 2)),
        _d(cls=st.just("ProgressBar"), current=st.integers(-10, 120), done=st.sampled_from([100, 1, 7, 50])),
    )


@functools.lru_cache(maxsize=None)
def box_leaves(enc):
    return st.one_of(
        _d(cls=st.just("SolidFill"), char=st.sampled_from([" ", "#", "x", "é" if enc != "euc-jp" else "y", "─"])),
        _d(cls=st.just("SolidFill"), char=st.sampled_from([" ", "#", "."])),
        _d(cls=st.just("BarGraph"), data=st.lists(st.lists(st.integers(0, 9), min_size=2, max_size=2), max_size=4),
           top=st.integers(1, 9), hlines=st.lists(st.integers(1, 8), max_size=2)),
    )


@functools.lru_cache(maxsize=None)
def fixed_leaves(enc):
    return st.one_of(
        text_leaf_visible(enc),
        _d(cls=st.just("BigText"), text=st.text("0189", min_size=1, max_size=3), font=st.sampled_from(["Thin3x3Font", "HalfBlock5x4Font", "Thin6x6Font"])),
    )


# ---------------------------------------------------------------------------------------------
# recursive generation


def _attr_map():
    return st.one_of(
        st.none(),
        st.sampled_from(T.ATTRS + ["m1"]),
        st.dictionaries(st.one_of(st.none(), st.sampled_from(T.ATTRS)), st.sampled_from(["m1", "m2", None]), max_size=2)
        .map(lambda d: [[k, v] for k, v in d.items()]),
    )


def _decor(mode, depth, enc):
    """decorations that keep the child's sizing mode"""
    child = widget(mode, depth - 1, enc)
    opts = [
        _d(cls=st.just("AttrMap"), w=child, attr=_attr_map(), focus=_attr_map()),
        _d(cls=st.just("AttrWrap"), w=child, attr=st.sampled_from(T.ATTRS), focus=st.one_of(st.none(), st.sampled_from(T.ATTRS))),
        _d(cls=st.just("WidgetPlaceholder"), w=child),
        _d(cls=st.just("WidgetDisable"), w=child),
        _d(cls=st.just("WidgetWrap"), w=child),
        _d(cls=st.just("PopUpLauncher"), w=child),
        _d(cls=st.just("LineBox"), w=child, title=T.text(enc, 5, newlines=False),
           title_align=st.sampled_from(ALIGN), drop=st.lists(st.sampled_from(
               ["tline", "bline", "lline", "rline"]), max_size=2, unique=True)),
    ]
    return st.one_of(opts)


def _padding(mode, depth, enc):
    align = st.one_of(st.sampled_from(ALIGN), st.tuples(st.just("relative"), st.integers(0, 100)).map(list))
    base = dict(align=align, left=_small, right=_small)
    # min_width is "the minimum number of columns ... when width is not fixed": only with relative/pack
    common = dict(min_width=st.one_of(st.none(), st.integers(1, 8)), **base)
    fixedw = dict(min_width=st.none(), **base)
    rel = st.tuples(st.just("relative"), st.integers(1, 100)).map(list)
    if mode == "box":
        return st.one_of(
            _d(cls=st.just("Padding"), w=widget("box", depth - 1, enc), width=st.integers(1, 12), **fixedw),
            _d(cls=st.just("Padding"), w=widget("box", depth - 1, enc), width=rel, **common),
        )
    if mode == "flow":
        return st.one_of(
            _d(cls=st.just("Padding"), w=widget("flow", depth - 1, enc), width=st.integers(1, 12), **fixedw),
            _d(cls=st.just("Padding"), w=widget("flow", depth - 1, enc), width=rel, **common),
            _d(cls=st.just("Padding"), w=text_leaf_visible(enc), width=st.just("pack"), **common),
            _d(cls=st.just("Padding"), w=widget("fixed", depth - 1, enc), width=st.just("clip"), **fixedw),
        )
    # fixed: a GIVEN-width Padding around a flow widget reports FIXED; pack around a fixed widget
    return st.one_of(
        _d(cls=st.just("Padding"), w=widget("flow", depth - 1, enc), width=st.integers(1, 12), **fixedw),
        _d(cls=st.just("Padding"), w=widget("fixed", depth - 1, enc), width=st.just("pack"), **common),
    )


def _filler(depth, enc):
    valign = st.one_of(st.sampled_from(VALIGN), st.tuples(st.just("relative"), st.integers(0, 100)).map(list))
    common = dict(valign=valign, min_height=st.one_of(st.none(), st.integers(1, 5)), top=_small, bottom=_small)
    def fix_min(spec):
        if isinstance(spec["height"], int):
            spec["min_height"] = None  # "the minimum number of rows for body when height is not fixed"
        return spec

    return st.one_of(
        _d(cls=st.just("Filler"), w=widget("flow", depth - 1, enc), height=st.just("pack"), **common),
        _d(cls=st.just("Filler"), w=widget("box", depth - 1, enc),
           height=st.one_of(st.integers(1, 8), st.tuples(st.just("relative"), st.integers(1, 100)).map(list)), **common),
    ).map(fix_min)


def _pile(mode, depth, enc):
    pack_item = _d(opt=st.just(["pack", None]), w=widget("flow", depth - 1, enc))
    given_item = _d(opt=st.tuples(st.just("given"), st.integers(1, 4)).map(list), w=widget("box", depth - 1, enc))
    if mode == "flow":
        # in a flow Pile a weight item is a flow widget (WEIGHT FLOW -> FLOW)
        flow_item = st.one_of(
            pack_item, given_item,
            _d(opt=st.tuples(st.just("weight"), st.integers(1, 3)).map(list), w=widget("flow", depth - 1, enc)),
        )
        items = st.lists(flow_item, min_size=1, max_size=4)
    elif mode == "box":
        # in a box Pile every weight item is rendered as a box widget
        flow_item = st.one_of(pack_item, given_item)
        box_item = _d(opt=st.tuples(st.just("weight"), st.sampled_from([1, 2, 3, 0.5])).map(list), w=widget("box", depth - 1, enc))
        items = st.tuples(st.lists(flow_item, max_size=2), box_item, st.lists(st.one_of(flow_item, box_item), max_size=2)).map(
            lambda t: [*t[0], t[1], *t[2]])
    else:
        items = st.lists(_d(opt=st.just(["pack", None]), w=widget("fixed", depth - 1, enc)), min_size=1, max_size=3)
    return _d(cls=st.just("Pile"), items=items, focus=st.integers(0, 5))


def _columns(mode, depth, enc):
    common = dict(dividechars=st.integers(0, 2), min_width=st.integers(1, 3), focus=st.integers(0, 5))
    if mode == "flow":
        item = st.one_of(
            _d(opt=st.tuples(st.just("weight"), st.sampled_from([1, 2, 3, 0.5])).map(list), w=widget("flow", depth - 1, enc), box=st.just(False)),
            _d(opt=st.tuples(st.just("given"), st.integers(1, 8)).map(list), w=widget("flow", depth - 1, enc), box=st.just(False)),
            _d(opt=st.just(["pack", None]), w=text_leaf_visible(enc), box=st.just(False)),
        )
        boxitem = _d(opt=st.one_of(st.tuples(st.just("weight"), st.integers(1, 2)).map(list),
                                   st.tuples(st.just("given"), st.integers(1, 5)).map(list)),
                     w=widget("box", depth - 1, enc), box=st.just(True))
        items = st.tuples(st.lists(st.one_of(item, item, boxitem), max_size=2), item, st.lists(st.one_of(item, item, boxitem), max_size=2)).map(
            lambda t: [*t[0], t[1], *t[2]])
    elif mode == "box":
        item = _d(opt=st.one_of(st.tuples(st.just("weight"), st.sampled_from([1, 2, 3, 0.5])).map(list),
                                st.tuples(st.just("given"), st.integers(1, 8)).map(list)),
                  w=widget("box", depth - 1, enc), box=_bool)
        items = st.lists(item, min_size=1, max_size=4)
    else:
        item = st.one_of(
            _d(opt=st.just(["pack", None]), w=widget("fixed", depth - 1, enc), box=st.just(False)),
            _d(opt=st.tuples(st.just("given"), st.integers(1, 8)).map(list), w=widget("flow", depth - 1, enc), box=st.just(False)),
        )
        items = st.lists(item, min_size=1, max_size=3)
    return _d(cls=st.just("Columns"), items=items, **common)


def _gridflow(depth, enc):
    return _d(cls=st.just("GridFlow"), cells=st.lists(widget("flow", depth - 1, enc), min_size=0, max_size=5),
              cell_width=st.integers(1, 8), h_sep=st.integers(0, 2), v_sep=st.integers(0, 2),
              align=st.one_of(st.sampled_from(ALIGN), st.tuples(st.just("relative"), st.integers(0, 100)).map(list)),
              focus=st.integers(0, 5))


def _frame(depth, enc):
    opt_flow = st.one_of(st.none(), widget("flow", depth - 1, enc))
    return _d(cls=st.just("Frame"), body=widget("box", depth - 1, enc), header=opt_flow, footer=opt_flow,
              focus_part=st.sampled_from(["body", "header", "footer"]))


def _overlay(depth, enc):
    align = st.one_of(st.sampled_from(ALIGN), st.tuples(st.just("relative"), st.integers(0, 100)).map(list))
    valign = st.one_of(st.sampled_from(VALIGN), st.tuples(st.just("relative"), st.integers(0, 100)).map(list))
    wdim = st.one_of(st.integers(1, 10), st.tuples(st.just("relative"), st.integers(1, 100)).map(list))
    hdim = st.one_of(st.integers(1, 6), st.tuples(st.just("relative"), st.integers(1, 100)).map(list))
    common = dict(bottom_w=widget("box", depth - 1, enc), align=align, valign=valign,
                  left=_small, right=_small, top=_small, bottom=_small)

    def fix_min(spec):
        # min_width / min_height are documented "when width/height is not fixed"
        if isinstance(spec["width"], int):
            spec["min_width"] = None
        if isinstance(spec["height"], int):
            spec["min_height"] = None
        return spec

    mins = dict(min_width=st.one_of(st.none(), st.integers(1, 6)), min_height=st.one_of(st.none(), st.integers(1, 4)))
    return st.one_of(
        _d(cls=st.just("Overlay"), top_w=widget("box", depth - 1, enc), width=wdim, height=hdim, **mins, **common),
        _d(cls=st.just("Overlay"), top_w=widget("flow", depth - 1, enc), width=wdim, height=st.just("pack"), **mins, **common),
        _d(cls=st.just("Overlay"), top_w=widget("fixed", depth - 1, enc), width=st.just("pack"), height=st.just("pack"), **mins, **common),
    ).map(fix_min)


def _listbox(depth, enc):
    return _d(cls=st.just("ListBox"), items=st.lists(widget("flow", depth - 1, enc), max_size=5), focus=st.integers(0, 5),
              walker=st.sampled_from(["SimpleListWalker", "SimpleFocusListWalker"]))


def _scroll(depth, enc):
    inner = _d(cls=st.just("Scrollable"), w=st.one_of(widget("flow", depth - 1, enc), widget("fixed", depth - 1, enc)),
               pos=st.integers(0, 6))
    return st.one_of(
        inner,
        _d(cls=st.just("ScrollBar"), w=st.one_of(inner, _listbox(depth - 1, enc)) if depth > 1 else inner,
           side=st.sampled_from(["left", "right"]), width=st.integers(1, 2)),
    )


@functools.lru_cache(maxsize=None)
def widget(mode: str, depth: int, enc: str):
    """strategy of specs for a widget supporting `mode`"""
    if mode == "flow":
        leaves = flow_leaves(enc)
    elif mode == "box":
        leaves = box_leaves(enc)
    else:
        leaves = fixed_leaves(enc)
    if depth <= 0:
        if mode == "box":
            # keep some structure at the bottom: a Filler / ListBox over flow leaves
            return st.one_of(leaves, _d(cls=st.just("Filler"), w=flow_leaves(enc), height=st.just("pack"),
                                        valign=st.sampled_from(VALIGN), min_height=st.none(), top=_small, bottom=_small))
        return leaves
    opts = [leaves, _decor(mode, depth, enc), _padding(mode, depth, enc), _pile(mode, depth, enc), _columns(mode, depth, enc)]
    if mode == "flow":
        opts += [_gridflow(depth, enc),
                 _d(cls=st.just("BoxAdapter"), w=widget("box", depth - 1, enc), height=st.integers(1, 5))]
    if mode == "box":
        opts += [_filler(depth, enc), _frame(depth, enc), _overlay(depth, enc), _listbox(depth, enc), _scroll(depth, enc),
                 _d(cls=st.just("PopUpTarget"), w=widget("box", depth - 1, enc))]
    return st.one_of(opts)


# ---------------------------------------------------------------------------------------------
# build


def _mk_attr_map(m):
    if m is None or isinstance(m, str):
        return m
    return {k: v for k, v in m}


def _tup(x):
    return tuple(x) if isinstance(x, list) else x


class Wrapped(urwid.WidgetWrap):
    """a composite widget as applications write them: a WidgetWrap subclass that may exchange what it shows
    ("Change the wrapped widget.  This is meant to be called only by subclasses."), with either spelling
    urwid ships: the ``_w`` property, or ``_set_w()`` (deprecated, supported until 5.0)"""

    def show(self, widget, legacy=False):
        if legacy:
            self._set_w(widget)
        else:
            self._w = widget


def build(spec, enc="utf-8", rec=None):
    """Build the widget tree of `spec`.  If `rec` is a list, every widget's render() is wrapped
    (instance attribute, urwid itself is untouched) to append (spec, size) for each call."""
    w = _build(spec, enc, rec)
    if rec is not None:
        orig = w.render

        def render(size, focus=False, _orig=orig, _spec=spec):
            rec.append((_spec, tuple(size)))
            return _orig(size, focus)

        try:
            w.render = render
        except AttributeError:
            pass
    return w


def starved(rec):
    """True if some widget was handed a size with no room for its own fixed margins/borders
    (or a dimension < 1): the outer size is too small for this tree."""
    for spec, size in rec:
        if any(d < 1 for d in size):
            return True
        c = spec["cls"]
        cols = size[0] if size else None
        rows = size[1] if len(size) > 1 else None
        if c in ("Padding", "Overlay") and cols is not None and spec["left"] + spec["right"] >= cols:
            return True
        if c in ("Filler", "Overlay") and rows is not None and spec["top"] + spec["bottom"] >= rows:
            return True
        if c == "LineBox":
            side = ("lline" not in spec["drop"]) + ("rline" not in spec["drop"])
            vert = ("tline" not in spec["drop"]) + ("bline" not in spec["drop"])
            if cols is not None and cols - side < 1:
                return True
            if rows is not None and rows - vert < 1:
                return True
        if c == "ScrollBar" and cols is not None and spec["width"] >= cols:
            return True
    return False


def _build(spec, enc, rec):
    c = spec["cls"]
    B = lambda s: build(s, enc, rec)  # noqa: E731
    if c == "Text":
        return urwid.Text(T.build_markup(spec["markup"], spec.get("bytes", False), enc), align=spec["align"], wrap=spec["wrap"])
    if c == "Edit":
        w = urwid.Edit(T.build_markup(spec["caption"], False, enc), spec["text"], multiline=spec["multiline"],
                       align=spec["align"], wrap=spec["wrap"])
        w.set_edit_pos(min(spec["pos"], len(spec["text"])))
        return w
    if c == "IntEdit":
        return urwid.IntEdit(spec["caption"], spec["default"])
    if c == "Button":
        return urwid.Button(T.build_markup(spec["label"], False, enc))
    if c == "CheckBox":
        return urwid.CheckBox(T.build_markup(spec["label"], False, enc), state=spec["state"], has_mixed=True)
    if c == "RadioButton":
        return urwid.RadioButton([], T.build_markup(spec["label"], False, enc))
    if c == "SelectableIcon":
        return urwid.SelectableIcon(T.build_markup(spec["text"], False, enc), cursor_position=spec["pos"])
    if c == "Divider":
        return urwid.Divider(spec["char"], top=spec["top"], bottom=spec["bottom"])
    if c == "ProgressBar":
        return urwid.ProgressBar("a1", "a2", current=spec["current"], done=spec["done"])
    if c == "SolidFill":
        return urwid.SolidFill(spec["char"])
    if c == "BarGraph":
        w = urwid.BarGraph(["a1", "a2", "hl"])
        w.set_data([tuple(d) for d in spec["data"]], spec["top"], sorted(set(spec["hlines"]), reverse=True) or None)
        return w
    if c == "BigText":
        return urwid.BigText(spec["text"], getattr(urwid, spec["font"])())
    if c == "AttrMap":
        return urwid.AttrMap(B(spec["w"]), _mk_attr_map(spec["attr"]), _mk_attr_map(spec["focus"]))
    if c == "AttrWrap":
        return urwid.AttrWrap(B(spec["w"]), spec["attr"], spec["focus"])
    if c == "WidgetPlaceholder":
        return urwid.WidgetPlaceholder(B(spec["w"]))
    if c == "WidgetDisable":
        return urwid.WidgetDisable(B(spec["w"]))
    if c == "WidgetWrap":
        return Wrapped(B(spec["w"]))
    if c == "PopUpLauncher":
        return urwid.PopUpLauncher(B(spec["w"]))
    if c == "PopUpTarget":
        return urwid.PopUpTarget(B(spec["w"]))
    if c == "LineBox":
        kw = {k: "" for k in spec["drop"]}
        # documented: a title needs the top line
        title = "" if "tline" in spec["drop"] else spec["title"]
        return urwid.LineBox(B(spec["w"]), title=title, title_align=spec["title_align"], **kw)
    if c == "Padding":
        return urwid.Padding(B(spec["w"]), align=_tup(spec["align"]), width=_tup(spec["width"]), min_width=spec["min_width"],
                             left=spec["left"], right=spec["right"])
    if c == "Filler":
        return urwid.Filler(B(spec["w"]), valign=_tup(spec["valign"]), height=_tup(spec["height"]), min_height=spec["min_height"],
                            top=spec["top"], bottom=spec["bottom"])
    if c == "BoxAdapter":
        return urwid.BoxAdapter(B(spec["w"]), spec["height"])
    if c == "Pile":
        items = []
        for it in spec["items"]:
            k, n = it["opt"]
            items.append((("pack", B(it["w"])) if k == "pack" else (k, n, B(it["w"]))))
        return urwid.Pile(items, focus_item=spec["focus"] % len(items) if items else None)
    if c == "Columns":
        items, boxcols = [], []
        for i, it in enumerate(spec["items"]):
            k, n = it["opt"]
            items.append((("pack", B(it["w"])) if k == "pack" else (k, n, B(it["w"]))))
            if it.get("box"):
                boxcols.append(i)
        return urwid.Columns(items, dividechars=spec["dividechars"], min_width=spec["min_width"],
                             focus_column=spec["focus"] % len(items) if items else None, box_columns=boxcols or None)
    if c == "GridFlow":
        cells = [B(s) for s in spec["cells"]]
        return urwid.GridFlow(cells, spec["cell_width"], spec["h_sep"], spec["v_sep"], _tup(spec["align"]),
                              focus=spec["focus"] % len(cells) if cells else None)
    if c == "Frame":
        hdr = B(spec["header"]) if spec["header"] else None
        ftr = B(spec["footer"]) if spec["footer"] else None
        part = spec["focus_part"]
        if (part == "header" and hdr is None) or (part == "footer" and ftr is None):
            part = "body"
        return urwid.Frame(B(spec["body"]), hdr, ftr, focus_part=part)
    if c == "Overlay":
        return urwid.Overlay(B(spec["top_w"]), B(spec["bottom_w"]), _tup(spec["align"]), _tup(spec["width"]), _tup(spec["valign"]),
                             _tup(spec["height"]), min_width=spec["min_width"], min_height=spec["min_height"],
                             left=spec["left"], right=spec["right"], top=spec["top"], bottom=spec["bottom"])
    if c == "ListBox":
        items = [B(s) for s in spec["items"]]
        walker = getattr(urwid, spec["walker"])(items)
        lb = urwid.ListBox(walker)
        if items:
            lb.set_focus(spec["focus"] % len(items))
        return lb
    if c == "Scrollable":
        w = urwid.Scrollable(B(spec["w"]))
        w.set_scrollpos(spec["pos"])
        return w
    if c == "ScrollBar":
        return urwid.ScrollBar(B(spec["w"]), side=spec["side"], width=spec["width"])
    raise AssertionError(c)


def children(spec):
    """sub-specs of a spec"""
    c = spec["cls"]
    if "w" in spec and isinstance(spec["w"], dict):
        return [spec["w"]]
    if c in ("Pile", "Columns"):
        return [it["w"] for it in spec["items"]]
    if c == "GridFlow":
        return list(spec["cells"])
    if c == "ListBox":
        return list(spec["items"])
    if c == "Frame":
        return [s for s in (spec["header"], spec["body"], spec["footer"]) if s]
    if c == "Overlay":
        return [spec["top_w"], spec["bottom_w"]]
    return []


def walk(spec):
    yield spec
    for ch in children(spec):
        yield from walk(ch)


def depth(spec):
    ch = children(spec)
    return 1 + (max(depth(c) for c in ch) if ch else 0)


def all_text(spec):
    out = []
    for s in walk(spec):
        for k in ("markup", "caption", "text", "label", "title", "char"):
            v = s.get(k)
            if v is not None:
                out.append(T.markup_text(v) if not isinstance(v, str) else v)
    return "".join(out)
