"""Public mutators of the widgets built by vlib.gen_widgets, spec-directed.

A widget tree on a screen is not rendered once: applications change it through the widgets' public setters
between two draws.  ``nodes(spec, w, slot)`` walks a spec and the live tree built from it in parallel;
``mutators(...)`` lists, for one node, every public way urwid ships to change it - methods, writable
properties, the container ``contents`` API *and* the backwards-compatibility spellings that are still
supported (``set_w``, ``body=``, ``widget_list``, ``item_types``, ``set_focus`` ...; each emits a
DeprecationWarning and is documented to stay until 4.0/5.0).  An op (JSON: small integers, a markup, and
optionally the spec of a new widget with its sizing mode) selects one applicable (node, mutator) pair and one
spelling; ``apply(...)`` performs it on the live tree and keeps the spec describing the tree.

Every mutator keeps the tree valid by the containers' documented rules (the same rules the generator builds
by): a child is exchanged for a widget of the sizing mode its slot needs, a box Pile keeps a weighted item,
a flow Columns keeps a flow column, 'pack' columns hold visible text, option values stay in the generator's
ranges, margins / borders (what gen_widgets.starved() reads) are never changed.
"""
from __future__ import annotations

import copy

from hypothesis import strategies as st

import urwid
from vlib import gen_text as T
from vlib import gen_widgets as G

SAME_SLOT = ("AttrMap", "AttrWrap", "WidgetPlaceholder", "WidgetDisable", "WidgetWrap", "PopUpLauncher", "LineBox")
FONTS = ["Thin3x3Font", "HalfBlock5x4Font", "Thin6x6Font"]
VALIGNS = ["top", "middle", "bottom", ("relative", 30), ("relative", 100)]


# ---------------------------------------------------------------------------------------------
# op strategies


def ops(enc: str, max_ops: int = 3, new_depth: int = 1):
    """strategy: list of mutation ops.  A *value op* changes a setting of some node; a *widget op* carries the
    spec of a new widget of sizing mode "mode" and exchanges / inserts it where a widget of that mode belongs
    (when the tree has no such place it acts as a value op).  Texts are a function of the op's integers (payload())."""
    base = dict(k=st.integers(0, 9999), a=st.integers(0, 99), b=st.integers(0, 99), spell=st.integers(0, 5))
    value_op = st.fixed_dictionaries(base)

    def widget_op(mode):
        return st.fixed_dictionaries(dict(mode=st.just(mode), new=st.one_of([G.widget(mode, d, enc) for d in range(new_depth + 1)]), **base))

    op = st.one_of(value_op, widget_op("flow"), widget_op("flow"), widget_op("box"), widget_op("fixed"))
    # never empty: the caller renders the unmutated tree first in any case
    return st.one_of(st.lists(op, min_size=1, max_size=max_ops), st.lists(op, min_size=min(2, max_ops), max_size=max_ops))


def payload(op, enc, newlines=True):
    """JSON markup for a text-setting op, a pure function of its integers a, b: 0..14 characters taken from the
    encoding's whole alphabet (ASCII, blank, double-width, zero-width, DEC line-drawing) and newline, as one
    string, one attributed segment or several segments"""
    a, b = op["a"], op["b"]
    alpha = [*T.ALPHABET[enc], " ", " "] + (["\n"] if newlines else [])
    n = [0, 1, 2, 3, 5, 8, 14, 4][b % 8]
    t = "".join(alpha[(a * 7 + i * (b + 3) + i * i) % len(alpha)] for i in range(n))
    kind = (b // 8) % 3
    if kind == 1:
        return [[T.ATTRS[a % 3], t]]
    if kind == 2:
        cut = a % (len(t) + 1)
        return [t[:cut], [T.ATTRS[b % 3], t[cut:]]]
    return t


def op_specs(op_list):
    """the new-widget specs carried by a list of ops"""
    return [op["new"] for op in op_list if "new" in op]


# ---------------------------------------------------------------------------------------------
# parallel walk of spec and live tree


def child_slots(spec, slot):
    """the sizing slot ("flow" | "box" | "fixed" | "text" = visible Text, flow and fixed | "scroll") of every child
    of `spec` (order of gen_widgets.children), when the node itself sits in `slot`: the generator's own rules"""
    c = spec["cls"]
    if c in SAME_SLOT:
        return [slot]
    if c in ("PopUpTarget", "BoxAdapter"):
        return ["box"]
    if c == "Padding":
        wd = spec["width"]
        if slot == "box":
            return ["box"]
        if slot == "flow":
            return ["text" if wd == "pack" else ("fixed" if wd == "clip" else "flow")]
        return ["fixed" if wd == "pack" else "flow"]
    if c == "Filler":
        return ["flow" if spec["height"] == "pack" else "box"]
    if c == "Pile":
        return [_pile_slot(it["opt"][0], slot) for it in spec["items"]]
    if c == "Columns":
        return [_columns_slot(it, slot) for it in spec["items"]]
    if c == "GridFlow":
        return ["flow"] * len(spec["cells"])
    if c == "ListBox":
        return ["flow"] * len(spec["items"])
    if c == "Frame":
        return [sl for sl, s in (("flow", spec["header"]), ("box", spec["body"]), ("flow", spec["footer"])) if s]
    if c == "Overlay":
        top = "fixed" if spec["width"] == "pack" else ("flow" if spec["height"] == "pack" else "box")
        return [top, "box"]
    if c == "Scrollable":
        return ["flow"]  # Scrollable takes flow or fixed widgets; a flow widget is always acceptable
    if c == "ScrollBar":
        return ["scroll"]
    return []


def _pile_slot(kind, slot):
    if kind == "given":
        return "box"
    if kind == "pack":
        return "fixed" if slot == "fixed" else "flow"
    return "flow" if slot == "flow" else "box"


def _columns_slot(it, slot):
    if slot == "box":
        return "box"
    if slot == "flow":
        return "box" if it.get("box") else ("text" if it["opt"][0] == "pack" else "flow")
    return "fixed" if it["opt"][0] == "pack" else "flow"


def live_children(spec, w):
    """the live children of `w` in the order of gen_widgets.children(spec)"""
    c = spec["cls"]
    if "w" in spec and isinstance(spec["w"], dict):
        return [w._w if c == "WidgetWrap" else w.original_widget]
    if c in ("Pile", "Columns", "GridFlow"):
        return [cw for cw, _o in w.contents]
    if c == "ListBox":
        return list(w.body)
    if c == "Frame":
        return [x for x, s in ((w.header, spec["header"]), (w.body, spec["body"]), (w.footer, spec["footer"])) if s]
    if c == "Overlay":
        return [w.top_w, w.bottom_w]
    return []


def nodes(spec, w, slot):
    """pre-order list of (spec, live widget, slot)"""
    out = []

    def rec(s, lw, sl):
        out.append((s, lw, sl))
        kids = live_children(s, lw)
        subs = G.children(s)
        slots = child_slots(s, sl)
        if not (len(kids) == len(subs) == len(slots)):
            raise AssertionError(f"spec and live tree out of step at {s['cls']}")
        for cs, cw, csl in zip(subs, kids, slots):
            rec(cs, cw, csl)

    rec(spec, w, slot)
    return out


# ---------------------------------------------------------------------------------------------
# the catalogue


def _fits(need, op):
    """does the op carry what a mutator needs?"""
    if need is None:
        return "new" not in op
    if "new" not in op:
        return False
    if need == "text":
        return op["mode"] == "fixed" and op["new"]["cls"] == "Text"  # fixed-mode Text specs are visible by construction
    return op["mode"] == need


def _alt(op, *spellings):
    """(name, thunk) pairs performing the same operation: run the one op["spell"] selects, return its name"""
    name, thunk = spellings[op["spell"] % len(spellings)]
    thunk()
    return name


def _visible(m):
    return ["X", m] if isinstance(m, str) else ["X", *m]


def mutators(s, w, slot, enc):
    """[(name, need, fn(op, nw, nspec) -> description | None)] for the node (spec s, live widget w) sitting in
    sizing slot `slot`.  need: None (value op) or the slot of the new widget the mutator takes; nw / nspec: that
    widget, built by the caller, and its spec.  fn returns None when not applicable in the current state."""
    M = []
    c = s["cls"]

    def add(name, fn, need=None):
        M.append((f"{c}.{name}", need, fn))

    def layout_mutators(wraps):
        def set_align(op, nw, ns):
            m = G.ALIGN[op["a"] % 3]
            s["align"] = m
            return _alt(op, ("set_align_mode", lambda: w.set_align_mode(m)), ("align=", lambda: setattr(w, "align", m)),
                        ("set_layout", lambda: w.set_layout(m, w.wrap))) + f" {m}"

        def set_wrap(op, nw, ns):
            m = wraps[op["a"] % len(wraps)]
            s["wrap"] = m
            return _alt(op, ("set_wrap_mode", lambda: w.set_wrap_mode(m)), ("wrap=", lambda: setattr(w, "wrap", m)),
                        ("set_layout", lambda: w.set_layout(w.align, m))) + f" {m}"

        add("align", set_align)
        add("wrap", set_wrap)

    def exchange(*spellings):
        """the one child of a decoration: spellings are (name, setter(new widget))"""
        (need,) = child_slots(s, slot)

        def fn(op, nw, ns):
            name = _alt(op, *[(n, (lambda f: lambda: f(nw))(f)) for n, f in spellings])
            s["w"] = ns
            return f"{name} <{ns['cls']}>"

        add("exchange", fn, need)

    def focus(n, *spellings):
        """spellings: (name, fn(index, widget at index))"""
        def fn(op, nw, ns):
            if not n:
                return None
            i = op["a"] % n
            cw = w.contents[i][0]
            s["focus"] = i
            return _alt(op, *[(nm, (lambda f: lambda: f(i, cw))(f)) for nm, f in spellings]) + f" {i}"

        add("focus", fn)

    if c == "Text":
        def set_text(op, nw, ns):
            m = payload(op, enc)
            if slot in ("text", "fixed"):
                m = _visible(m)
            w.set_text(T.build_markup(m, s.get("bytes", False), enc))
            s["markup"] = m
            return f"set_text {m!r}"

        add("set_text", set_text)
        add("set_text", set_text)
        layout_mutators(G.WRAP)
    elif c == "Edit":
        def set_edit_text(op, nw, ns):
            t = T.markup_text(payload(op, enc))
            s["text"] = t
            return _alt(op, ("set_edit_text", lambda: w.set_edit_text(t)), ("edit_text=", lambda: setattr(w, "edit_text", t))) + f" {t!r}"

        def insert_text(op, nw, ns):
            t = T.markup_text(payload(op, enc, newlines=False))
            w.insert_text(t)
            s["text"] = w.edit_text
            return f"insert_text {t!r}"

        def set_caption(op, nw, ns):
            m = payload(op, enc)
            w.set_caption(T.build_markup(m, False, enc))
            s["caption"] = m
            return f"set_caption {m!r}"

        def set_edit_pos(op, nw, ns):
            p = op["a"] % (len(w.edit_text) + 1)
            s["pos"] = p
            return _alt(op, ("set_edit_pos", lambda: w.set_edit_pos(p)), ("edit_pos=", lambda: setattr(w, "edit_pos", p))) + f" {p}"

        def set_mask(op, nw, ns):
            m = [None, "*"][op["a"] % 2]
            w.set_mask(m)
            return f"set_mask {m!r}"

        add("set_edit_text", set_edit_text)
        add("insert_text", insert_text)
        add("set_caption", set_caption)
        add("set_edit_pos", set_edit_pos)
        add("set_mask", set_mask)
        layout_mutators(G.WRAP[:3])
    elif c == "IntEdit":
        def set_int(op, nw, ns):
            t = str((op["a"] * 37 + op["b"]) % 10 ** (1 + op["b"] % 6))
            return _alt(op, ("set_edit_text", lambda: w.set_edit_text(t)), ("edit_text=", lambda: setattr(w, "edit_text", t))) + f" {t!r}"

        def set_caption(op, nw, ns):
            t = T.markup_text(payload(op, enc, newlines=False))
            w.set_caption(t)
            s["caption"] = t
            return f"set_caption {t!r}"

        add("set_edit_text", set_int)
        add("set_caption", set_caption)
    elif c in ("Button", "CheckBox", "RadioButton"):
        def set_label(op, nw, ns):
            m = payload(op, enc)
            w.set_label(T.build_markup(m, False, enc))
            s["label"] = m
            return f"set_label {m!r}"

        add("set_label", set_label)
        if c != "Button":
            states = [True, False, "mixed"] if c == "CheckBox" else [True, False]

            def set_state(op, nw, ns):
                v = states[op["a"] % len(states)]
                return _alt(op, ("set_state", lambda: w.set_state(v)), ("state=", lambda: setattr(w, "state", v))) + f" {v!r}"

            add("set_state", set_state)
            add("toggle_state", lambda op, nw, ns: (w.toggle_state(), "toggle_state")[1])
    elif c == "SelectableIcon":
        def set_icon_text(op, nw, ns):
            m = payload(op, enc)
            w.set_text(T.build_markup(m, False, enc))
            s["text"] = m
            return f"set_text {m!r}"

        add("set_text", set_icon_text)
    elif c == "ProgressBar":
        def set_completion(op, nw, ns):
            v = (op["a"] * 7 + op["b"]) % 131 - 10
            s["current"] = v
            return _alt(op, ("set_completion", lambda: w.set_completion(v)), ("current=", lambda: setattr(w, "current", v))) + f" {v}"

        def set_done(op, nw, ns):
            w.done = s["done"] = [100, 1, 7, 50][op["a"] % 4]
            return f"done= {w.done}"

        add("set_completion", set_completion)
        add("done", set_done)
    elif c == "BarGraph":
        def set_data(op, nw, ns):
            a, b = op["a"], op["b"]
            data = [[(a + 3 * i) % 10, (b + 2 * i) % 10] for i in range(a % 5)]
            top = 1 + (a + b) % 9
            hl = sorted({1 + b % 8, 1 + (a + b) % 8}, reverse=True)[: b % 3]
            w.set_data([tuple(d) for d in data], top, hl or None)
            s["data"], s["top"], s["hlines"] = data, top, hl
            return f"set_data {data!r}, {top}, {hl or None!r}"

        def set_bar_width(op, nw, ns):
            v = [None, 1, 2, 3][op["a"] % 4]
            w.set_bar_width(v)
            return f"set_bar_width {v!r}"

        add("set_data", set_data)
        add("set_bar_width", set_bar_width)
    elif c == "BigText":
        def set_big_text(op, nw, ns):
            t = "".join("0189"[(op["a"] >> (2 * i)) % 4] for i in range(1 + op["b"] % 3))
            w.set_text(t)
            s["text"] = t
            return f"set_text {t!r}"

        def set_font(op, nw, ns):
            f = FONTS[op["a"] % 3]
            w.set_font(getattr(urwid, f)())
            s["font"] = f
            return f"set_font {f}"

        add("set_text", set_big_text)
        add("set_font", set_font)
    elif c == "AttrMap":
        maps = [{None: "m1"}, {None: "a2", "a1": "m2"}, {"a1": "hl", "hl": "a1"}, {None: None}]

        def set_attr_map(op, nw, ns):
            v = dict(maps[op["a"] % 4])
            return _alt(op, ("set_attr_map", lambda: w.set_attr_map(v)), ("attr_map=", lambda: setattr(w, "attr_map", v))) + f" {v!r}"

        def set_focus_map(op, nw, ns):
            v = [None, *maps][op["a"] % 5]
            v = v and dict(v)
            return _alt(op, ("set_focus_map", lambda: w.set_focus_map(v)), ("focus_map=", lambda: setattr(w, "focus_map", v))) + f" {v!r}"

        add("set_attr_map", set_attr_map)
        add("set_focus_map", set_focus_map)
        exchange(("original_widget=", lambda nw: setattr(w, "original_widget", nw)))
    elif c == "AttrWrap":
        def set_attr(op, nw, ns):
            v = T.ATTRS[op["a"] % 3]
            return _alt(op, ("set_attr", lambda: w.set_attr(v)), ("attr=", lambda: setattr(w, "attr", v))) + f" {v}"

        def set_focus_attr(op, nw, ns):
            v = [None, *T.ATTRS][op["a"] % 4]
            return _alt(op, ("set_focus_attr", lambda: w.set_focus_attr(v)), ("focus_attr=", lambda: setattr(w, "focus_attr", v))) + f" {v!r}"

        add("set_attr", set_attr)
        add("set_focus_attr", set_focus_attr)
        exchange(("original_widget=", lambda nw: setattr(w, "original_widget", nw)),
                 ("w=", lambda nw: setattr(w, "w", nw)), ("set_w", lambda nw: w.set_w(nw)))
    elif c == "WidgetWrap":
        exchange(("_w=", lambda nw: w.show(nw)), ("_set_w", lambda nw: w.show(nw, legacy=True)))
    elif c in ("WidgetPlaceholder", "WidgetDisable", "PopUpLauncher", "PopUpTarget"):
        exchange(("original_widget=", lambda nw: setattr(w, "original_widget", nw)))
    elif c == "LineBox":
        if "tline" not in s["drop"]:
            def set_title(op, nw, ns):
                t = T.markup_text(payload(op, enc, newlines=False))
                w.set_title(t)
                s["title"] = t
                return f"set_title {t!r}"

            add("set_title", set_title)
        exchange(("original_widget=", lambda nw: setattr(w, "original_widget", nw)))
    elif c == "Padding":
        def set_align(op, nw, ns):
            v = [*G.ALIGN, ("relative", (op["b"] * 13) % 101)][op["a"] % 4]
            w.align = v
            s["align"] = list(v) if isinstance(v, tuple) else v
            return f"align= {v!r}"

        add("align", set_align)
        if not isinstance(s["width"], str):
            def set_width(op, nw, ns):
                v = 1 + op["a"] % 12 if isinstance(s["width"], int) else ("relative", 1 + op["a"])
                w.width = v
                s["width"] = list(v) if isinstance(v, tuple) else v
                return f"width= {v!r}"

            add("width", set_width)
        exchange(("original_widget=", lambda nw: setattr(w, "original_widget", nw)))
    elif c == "Filler":
        exchange(("original_widget=", lambda nw: setattr(w, "original_widget", nw)),
                 ("body=", lambda nw: setattr(w, "body", nw)), ("set_body", lambda nw: w.set_body(nw)))
    elif c == "BoxAdapter":
        exchange(("original_widget=", lambda nw: setattr(w, "original_widget", nw)),
                 ("box_widget=", lambda nw: setattr(w, "box_widget", nw)))
    elif c == "Scrollable":
        def set_scrollpos(op, nw, ns):
            p = op["a"] % 9 - 2
            w.set_scrollpos(p)
            return f"set_scrollpos {p}"

        add("set_scrollpos", set_scrollpos)
        exchange(("original_widget=", lambda nw: setattr(w, "original_widget", nw)))
    elif c == "ScrollBar":
        def set_side(op, nw, ns):
            w.scrollbar_side = s["side"] = ["left", "right"][op["a"] % 2]
            return f"scrollbar_side= {w.scrollbar_side}"

        add("scrollbar_side", set_side)
    elif c in ("Pile", "Columns"):
        _pile_columns(s, w, slot, add, focus)
    elif c == "GridFlow":
        _gridflow(s, w, add, focus)
    elif c == "Frame":
        _frame(s, w, add)
    elif c == "Overlay":
        _overlay(s, w, slot, add)
    elif c == "ListBox":
        _listbox(s, w, add)
    return M


def _pile_columns(s, w, slot, add, focus):
    pile = s["cls"] == "Pile"
    cont, items = w.contents, s["items"]
    slot_of = (lambda it: _pile_slot(it["opt"][0], slot)) if pile else (lambda it: _columns_slot(it, slot))
    types_name = "item_types" if pile else "column_types"

    def options(it):
        k, n = it["opt"]
        return w.options(k, n) if pile else w.options(k, n, bool(it.get("box")))

    for i, it in enumerate(items):
        def assign(op, nw, ns, i=i):
            name = _alt(op, ("contents[i]=", lambda: cont.__setitem__(i, (nw, cont[i][1]))),
                        ("widget_list[i]=", lambda: w.widget_list.__setitem__(i, nw)))
            items[i]["w"] = ns
            return f"{name} i={i} <{ns['cls']}>"

        add("assign", assign, slot_of(it))

    def inserter(kind, need, amount, box):
        def insert(op, nw, ns):
            if len(cont) >= 6:
                return None
            i = op["a"] % (len(cont) + 1)
            it = {"opt": [kind, amount(op)], "w": ns}
            if not pile:
                it["box"] = box(op)
            opts = options(it)
            spellings = [("contents.insert", lambda: cont.insert(i, (nw, opts)))]
            if i == len(cont):
                spellings.append(("contents.append", lambda: cont.append((nw, opts))))
                if kind == "weight" and it["opt"][1] == 1 and not it.get("box"):
                    # the old list view: a widget appended to it is given the default options ('weight', 1)
                    spellings.append(("widget_list.append", lambda: w.widget_list.append(nw)))
            name = _alt(op, *spellings)
            items.insert(i, it)
            return f"{name} at {i}: {it['opt']} <{ns['cls']}>"

        add(f"insert-{kind}", insert, need)

    none = lambda op: None  # noqa: E731
    false = lambda op: False  # noqa: E731
    if pile:
        inserter("pack", "fixed" if slot == "fixed" else "flow", none, false)
        if slot != "fixed":
            inserter("given", "box", lambda op: 1 + op["b"] % 4, false)
            inserter("weight", "flow" if slot == "flow" else "box", lambda op: 1 + op["b"] % 3, false)
    elif slot == "flow":
        inserter("pack", "text", none, false)
        inserter("weight", "flow", lambda op: 1 + op["b"] % 3, false)
        inserter("given", "flow", lambda op: 1 + op["b"] % 8, false)
        inserter("given", "box", lambda op: 1 + op["b"] % 5, lambda op: True)
    elif slot == "box":
        inserter("weight", "box", lambda op: 1 + op["b"] % 3, lambda op: bool(op["b"] & 8))
        inserter("given", "box", lambda op: 1 + op["b"] % 8, lambda op: bool(op["b"] & 8))
    else:
        inserter("pack", "fixed", none, false)
        inserter("given", "flow", lambda op: 1 + op["b"] % 8, false)

    def delete(op, nw, ns):
        if len(cont) <= 1:
            return None
        i = op["a"] % len(cont)
        rest = items[:i] + items[i + 1:]
        if pile and slot == "box" and not any(it["opt"][0] == "weight" for it in rest):
            return None  # a box Pile needs a weighted item to take the remaining rows
        if not pile and slot == "flow" and all(it.get("box") for it in rest):
            return None  # a flow Columns needs a flow column to take its height from
        spellings = [("del contents[i]", lambda: cont.__delitem__(i)), ("contents.pop", lambda: cont.pop(i))]
        if i == len(cont) - 1:
            spellings.append(("widget_list.pop", lambda: w.widget_list.pop()))  # the remaining options stay in place
        name = _alt(op, *spellings)
        del items[i]
        return f"{name} i={i}"

    add("delete", delete)

    def set_options(op, nw, ns):
        idx = [i for i, it in enumerate(items) if it["opt"][0] != "pack"]
        if not idx:
            return None
        i = idx[op["a"] % len(idx)]
        kind, n = items[i]["opt"]
        n2 = 1 + (int(n) + op["b"]) % 3 if kind == "weight" else 1 + (n + op["b"]) % (4 if pile else 8)
        new_it = dict(items[i], opt=[kind, n2])

        def legacy():
            old = getattr(w, types_name)
            old[i] = (old[i][0], n2)  # the old list view of (type, amount): item assignment goes through the setter

        name = _alt(op, ("contents[i]=options", lambda: cont.__setitem__(i, (cont[i][0], options(new_it)))), (f"{types_name}[i]=", legacy))
        items[i]["opt"] = [kind, n2]
        return f"{name} i={i} {kind} {n} -> {n2}"

    add("options", set_options)
    common = [("focus_position=", lambda i, cw: setattr(w, "focus_position", i)), ("set_focus(int)", lambda i, cw: w.set_focus(i)),
              ("set_focus(widget)", lambda i, cw: w.set_focus(cw))]
    if pile:
        focus(len(cont), *common, ("focus_item=", lambda i, cw: setattr(w, "focus_item", cw)), ("focus=", lambda i, cw: setattr(w, "focus", i)))
    else:
        focus(len(cont), *common, ("set_focus_column", lambda i, cw: w.set_focus_column(i)), ("focus_col=", lambda i, cw: setattr(w, "focus_col", i)))


def _gridflow(s, w, add, focus):
    cont, cells = w.contents, s["cells"]
    for i in range(len(cells)):
        def assign(op, nw, ns, i=i):
            name = _alt(op, ("contents[i]=", lambda: cont.__setitem__(i, (nw, cont[i][1]))), ("cells[i]=", lambda: w.cells.__setitem__(i, nw)))
            cells[i] = ns
            return f"{name} i={i} <{ns['cls']}>"

        add("assign", assign, "flow")

    def insert(op, nw, ns):
        if len(cont) >= 7:
            return None
        i = op["a"] % (len(cont) + 1)
        spellings = [("contents.insert", lambda: cont.insert(i, (nw, w.options())))]
        if len(cont):
            spellings.append(("cells.insert", lambda: w.cells.insert(i, nw)))
        name = _alt(op, *spellings)
        cells.insert(i, ns)
        return f"{name} at {i} <{ns['cls']}>"

    def delete(op, nw, ns):
        if not len(cont):
            return None
        i = op["a"] % len(cont)
        name = _alt(op, ("del contents[i]", lambda: cont.__delitem__(i)), ("cells.pop", lambda: w.cells.pop(i)))
        del cells[i]
        return f"{name} i={i}"

    def cell_width(op, nw, ns):
        if not len(cont):
            return None
        w.cell_width = s["cell_width"] = 1 + op["a"] % 8
        return f"cell_width= {w.cell_width}"

    add("insert", insert, "flow")
    add("delete", delete)
    add("cell_width", cell_width)
    focus(len(cont), ("focus_position=", lambda i, cw: setattr(w, "focus_position", i)), ("set_focus(int)", lambda i, cw: w.set_focus(i)),
          ("set_focus(widget)", lambda i, cw: w.set_focus(cw)), ("focus_cell=", lambda i, cw: setattr(w, "focus_cell", cw)))


def _frame(s, w, add):
    def part_setter(part, need):
        def put(op, nw, ns):
            name = _alt(op, (f"{part}=", lambda: setattr(w, part, nw)), (f"set_{part}", lambda: getattr(w, f"set_{part}")(nw)),
                        (f"contents[{part!r}]=", lambda: w.contents.__setitem__(part, (nw, w.options()))))
            s[part] = ns
            return f"{name} <{ns['cls']}>"

        add(part, put, need)
        if part != "body":
            def drop(op, nw, ns):
                if not s[part]:
                    return None
                name = _alt(op, (f"{part}=None", lambda: setattr(w, part, None)), (f"set_{part}(None)", lambda: getattr(w, f"set_{part}")(None)),
                            (f"del contents[{part!r}]", lambda: w.contents.__delitem__(part)))
                s[part] = None
                if s["focus_part"] == part:
                    s["focus_part"] = "body"
                return name

            add(f"{part}-none", drop)

    part_setter("header", "flow")
    part_setter("footer", "flow")
    part_setter("body", "box")

    def focus(op, nw, ns):
        parts = [p for p in ("body", "header", "footer") if s[p]]
        part = parts[op["a"] % len(parts)]
        s["focus_part"] = part
        return _alt(op, ("focus_position=", lambda: setattr(w, "focus_position", part)), ("set_focus", lambda: w.set_focus(part))) + f" {part}"

    add("focus", focus)


def _overlay(s, w, slot, add):
    top_slot = child_slots(s, slot)[0]

    def top(op, nw, ns):
        w.contents[1] = (nw, w.contents[1][1])
        s["top_w"] = ns
        return f"contents[1]= <{ns['cls']}>"

    def bottom(op, nw, ns):
        w.contents[0] = (nw, w.contents[0][1])
        s["bottom_w"] = ns
        return f"contents[0]= <{ns['cls']}>"

    def dim(old, n, rel):
        if old == "pack":
            return "pack"
        return n if isinstance(old, int) else ["relative", rel]

    def params(op, nw, ns):
        a, b = op["a"], op["b"]
        al = [*G.ALIGN, ["relative", (b * 13) % 101]][a % 4]
        va = [*G.VALIGN, ["relative", (a * 7) % 101]][b % 4]
        wd = dim(s["width"], 1 + a % 10, 1 + b)
        ht = dim(s["height"], 1 + b % 6, 1 + a)
        w.set_overlay_parameters(G._tup(al), G._tup(wd), G._tup(va), G._tup(ht), s["min_width"], s["min_height"],
                                 s["left"], s["right"], s["top"], s["bottom"])
        s.update(align=al, valign=va, width=wd, height=ht)
        return f"set_overlay_parameters align={al!r} width={wd!r} valign={va!r} height={ht!r}"

    add("top", top, top_slot)
    add("bottom", bottom, "box")
    add("params", params)


def _listbox(s, w, add):
    body, items = w.body, s["items"]
    for i in range(len(items)):
        def assign(op, nw, ns, i=i):
            body[i] = nw
            items[i] = ns
            return f"body[{i}]= <{ns['cls']}>"

        add("assign", assign, "flow")

    def insert(op, nw, ns):
        if len(body) >= 8:
            return None
        i = op["a"] % (len(body) + 1)
        name = _alt(op, ("body.insert", lambda: body.insert(i, nw)), *([("body.append", lambda: body.append(nw))] if i == len(body) else []))
        items.insert(i, ns)
        return f"{name} at {i} <{ns['cls']}>"

    def delete(op, nw, ns):
        if not len(body):
            return None
        i = op["a"] % len(body)
        name = _alt(op, ("del body[i]", lambda: body.__delitem__(i)), ("body.pop", lambda: body.pop(i)))
        del items[i]
        return f"{name} i={i}"

    def set_focus(op, nw, ns):
        if not len(body):
            return None
        i = op["a"] % len(body)
        cf = [None, "above", "below"][op["b"] % 3]
        s["focus"] = i
        return _alt(op, ("set_focus", lambda: w.set_focus(i, cf)), ("focus_position=", lambda: setattr(w, "focus_position", i)),
                    ("body.set_focus", lambda: body.set_focus(i))) + f" {i} {cf!r}"

    def valign(op, nw, ns):
        v = VALIGNS[op["a"] % 5]
        w.set_focus_valign(v)
        return f"set_focus_valign {v!r}"

    add("insert", insert, "flow")
    add("delete", delete)
    add("set_focus", set_focus)
    add("set_focus_valign", valign)


# ---------------------------------------------------------------------------------------------
# interpreter


class Ineffective(Exception):
    """a setter returned normally but the new widget is not in the tree afterwards"""


def apply(op, spec, root, slot, enc, rec=None):
    """Perform `op` on the live tree `root` described by `spec` (updated in place) whose root sits in sizing
    slot `slot`.  Returns (mutator name, description) or None when no node of the tree offers what the op asks
    for.  The op's integers are interpreted modulo the current state."""
    every = [(name, need, fn) for s, w, sl in nodes(spec, root, slot) for name, need, fn in mutators(s, w, sl, enc)]
    cands = [(name, fn) for name, need, fn in every if _fits(need, op)]
    if not cands and "new" in op:
        # no node of this tree has a place for a widget of that mode: the op changes a setting instead
        op = {k: v for k, v in op.items() if k not in ("new", "mode")}
        cands = [(name, fn) for name, need, fn in every if need is None]
    if not cands:
        return None
    nw = ns = None
    if "new" in op:
        ns = copy.deepcopy(op["new"])
        nw = G.build(ns, enc, rec)
    # the first candidate, counting cyclically from k, that applies in the current state (a mutator that does not
    # apply - nothing to delete, container full - returns None without having touched anything)
    for j in range(len(cands)):
        name, fn = cands[(op["k"] + j) % len(cands)]
        try:
            desc = fn(op, nw, ns)
        except Exception as e:
            e.mutator = name
            raise
        if desc is not None:
            break
    else:
        return None
    if nw is not None:
        # spec and live tree must still be in step, with the new widget in its place
        try:
            found = any(lw is nw for _s, lw, _sl in nodes(spec, root, slot))
        except (AssertionError, AttributeError):
            found = False
        if not found:
            raise Ineffective(f"{name}: {desc}")
    return name, f"{name}: {desc}"
