"""Runner: tiers, seeds, sharding, watchdog, evidence, known findings, exit codes.

A check module (checks/cNN_*.py) exposes

    PROPERTY      "C16"
    LEVEL         "exploration" | "fault_enumeration"
    RULE          text: how cases are generated and what makes one non-trivial
    ASSUMPTIONS   list of str
    SUBS          {sub_name: check_fn(case) -> None | raises Violation}
    KNOWN         {finding_id: predicate(sub, case, violation) -> bool}     (optional)
    shard(ctx)    run this shard's share of the campaign, using ctx.* helpers
    SHARDS        optional {"quick": n, "thorough": n} (default 16)

Exit codes: 0 property held on everything explored (known findings are printed, not alarms);
1 + "VIOLATION property=<id> replay=<path>"; 2 harness error (never a VIOLATION line).
"""
from __future__ import annotations

import hashlib
import importlib
import json
import os
import signal
import subprocess
import sys
import time
import traceback

ROOT = os.path.dirname(os.path.dirname(os.path.abspath(__file__)))
REPO = os.environ.get("VERIF_REPO", "/repo")

CHECKS = {
    "C01": "c01_render_size",
    "C02": "c02_canvas_grid",
    "C03": "c03_text_layout",
    "C04": "c04_raw_display",
    "C05": "c05_input_decode",
    "C06": "c06_canvas_cache",
    "C07": "c07_listbox",
    "C08": "c08_container_focus",
    "C09": "c09_cursor_mouse",
    "C10": "c10_edit_model",
    "C11": "c11_width_arith",
    "C12": "c12_mainloop_faults",
    "C13": "c13_event_loops",
    "C14": "c14_signals",
    "C15": "c15_vterm",
    "C16": "c16_monitored_list",
    "C17": "c17_attributes",
    "C18": "c18_attrspec",
    "C19": "c19_space_partition",
    "C20": "c20_scrollable",
}

# wall-clock budget per shard (seconds): running out means "inconclusive", never a violation
BUDGET = {"quick": 75.0, "thorough": 900.0}
WALL_FACTOR = 3.0
SHRINK_BUDGET = {"quick": 25.0, "thorough": 120.0}
CASE_WATCHDOG = 20  # CPU seconds of this process one case may use before it counts as hanging
CASE_WALL_LIMIT = 600  # wall seconds after which a case that is NOT burning CPU (blocked, or starved by other load) is
# given up as inconclusive - never as a violation: wall-clock time is no correctness signal


class Violation(Exception):
    """The oracle disagrees with the code under test."""

    def __init__(self, clause: str, message: str = ""):
        super().__init__(f"{clause}: {message}")
        self.clause = clause
        self.message = message


class Discard(Exception):
    """The generated case violates a soundness precondition (counted, not a failure)."""


class _Hang(BaseException):
    pass


class _Stall(BaseException):
    pass


_case_clock = {"cpu": 0.0, "wall": 0.0}


def _alarm_handler(signum, frame):
    if time.process_time() - _case_clock["cpu"] >= CASE_WATCHDOG:
        raise _Hang()
    if time.monotonic() - _case_clock["wall"] >= CASE_WALL_LIMIT:
        raise _Stall()
    signal.alarm(5)  # look again


def jhash(obj) -> int:
    s = json.dumps(obj, sort_keys=True, default=repr, ensure_ascii=True)
    return int.from_bytes(hashlib.blake2b(s.encode(), digest_size=8).digest(), "big")


def urwid_frame(exc: BaseException) -> str | None:
    """innermost traceback frame that lies in the urwid package, as 'file:func'."""
    tb = traceback.extract_tb(exc.__traceback__)
    hit = None
    cause = exc.__cause__ or exc.__context__
    if cause is not None and cause is not exc:
        hit = urwid_frame(cause) if not getattr(cause, "_vf_seen", False) else None
    for fr in tb:
        fn = fr.filename.replace("\\", "/")
        if "/urwid/" in fn and "/verif/" not in fn:
            hit = f"{fn.split('/urwid/', 1)[1]}:{fr.name}"
    return hit


def innermost_is_urwid(exc: BaseException, _depth: int = 0) -> bool:
    tb = traceback.extract_tb(exc.__traceback__)
    # "RuntimeError: generator raised StopIteration" and re-raised errors: look at the cause too
    cause = exc.__cause__ or exc.__context__
    if cause is not None and _depth < 4 and innermost_is_urwid(cause, _depth + 1):
        return True
    if not tb:
        return False
    # walk from the innermost outwards, skipping stdlib / third-party frames
    for fr in reversed(tb):
        fn = fr.filename.replace("\\", "/")
        if "/verif/" in fn:
            return False
        if "/urwid/" in fn:
            return True
    return False


class _BudgetStop(BaseException):
    """the shard's budget ran out inside a Hypothesis campaign (the run is marked inconclusive by Ctx.expired)"""


class Ctx:
    """Per-worker context: counters + helpers. Everything here ends up in the evidence file."""

    MAX_HASHES = 400_000

    def __init__(self, prop, module, tier, seed, shard, nshards):
        self.prop, self.module, self.tier, self.seed = prop, module, tier, seed
        self.shard, self.nshards = shard, nshards
        self.t0 = time.monotonic()
        self.cpu0 = time.process_time()
        self.budget = float(os.environ.get("VERIF_BUDGET", BUDGET[tier]))
        self.evaluations = 0
        self.nt_hashes: set[int] = set()
        self.nt_enum = 0  # non-trivial cases that are distinct by construction (enumerations)
        self.classes: dict[str, int] = {}
        self.discarded = 0
        self.excluded: dict[str, int] = {}
        self.excluded_example: dict[str, dict] = {}
        self.samples: list = []
        self.failure = None
        self.first_fail_t = None
        self.inconclusive = False
        self.exhaustive: dict[str, bool] = {}
        self.notes: list[str] = []
        self.known_active = load_known_ids(prop)
        self.survey: dict[str, dict] = {}

    # ---- seeds / time ------------------------------------------------------------------
    def derive_seed(self, name: str) -> int:
        h = hashlib.blake2b(f"{self.seed}/{self.prop}/{name}/{self.shard}".encode(), digest_size=8)
        return int.from_bytes(h.digest(), "big")

    def expired(self) -> bool:
        """The budget is counted in CPU seconds of this worker, so that what a campaign covers does not
        depend on how busy the machine is; wall-clock time is capped at WALL_FACTOR x the budget (checks
        that mostly sleep - real event loops, ptys - and an overloaded machine)."""
        if time.process_time() - self.cpu0 > self.budget or time.monotonic() - self.t0 > WALL_FACTOR * self.budget:
            self.inconclusive = True
            return True
        return False

    def mine(self, index: int) -> bool:
        """slice an enumeration across shards"""
        return index % self.nshards == self.shard

    def scale(self, quick: int, thorough: int) -> int:
        return quick if self.tier == "quick" else thorough

    # ---- counters ---------------------------------------------------------------------
    def count(self, cls: str, n: int = 1):
        self.classes[cls] = self.classes.get(cls, 0) + n

    def nontrivial(self, key):
        if len(self.nt_hashes) < self.MAX_HASHES:
            self.nt_hashes.add(key if isinstance(key, int) else jhash(key))

    def sample(self, case, limit=3):
        if len(self.samples) < limit:
            self.samples.append(case)

    # ---- evaluating one case ----------------------------------------------------------
    def evaluate(self, sub: str, case, fn=None) -> bool:
        """Run SUBS[sub](case) under the watchdog.  Returns True if the case held (or was
        discarded / matched a known finding); raises Violation for an unlisted failure."""
        fn = fn or self.module.SUBS[sub]
        self.evaluations += 1
        _case_clock["cpu"], _case_clock["wall"] = time.process_time(), time.monotonic()
        old = signal.signal(signal.SIGALRM, _alarm_handler)
        signal.alarm(CASE_WATCHDOG)
        try:
            try:
                fn(case)
            finally:
                signal.alarm(0)
                signal.signal(signal.SIGALRM, old)
            return True
        except Discard:
            self.discarded += 1
            return True
        except _Stall:
            self.discarded += 1
            self.inconclusive = True
            self.notes.append(f"{sub}: a case was given up after {CASE_WALL_LIMIT}s of wall time without using "
                              f"{CASE_WATCHDOG}s of CPU (blocked or starved): inconclusive")
            return True
        except _Hang:
            v = Violation("hang", f"case used more than {CASE_WATCHDOG}s of CPU without finishing")
        except Violation as e:
            v = e
        except (KeyboardInterrupt, SystemExit, MemoryError):
            raise
        except BaseException as e:  # noqa: BLE001
            if type(e).__module__.startswith("hypothesis"):
                raise
            if innermost_is_urwid(e):
                v = Violation(
                    f"exception:{type(e).__name__}@{urwid_frame(e)}",
                    f"{type(e).__name__}: {e}",
                )
                v.__traceback__ = e.__traceback__
            else:
                raise
        fid = self.match_known(sub, case, v)
        if fid is None and os.environ.get("VERIF_SURVEY"):
            # development aid: bucket every unlisted failure by clause, keep the smallest example, go on
            key = f"{sub}|{v.clause}"
            size = len(json.dumps(case, default=repr))
            cur = self.survey.get(key)
            if cur is None or size < cur["size"]:
                self.survey[key] = {"size": size, "n": (cur or {"n": 0})["n"] + 1, "case": case, "message": v.message[:600]}
            else:
                cur["n"] += 1
            return True
        if fid is not None:
            self.excluded[fid] = self.excluded.get(fid, 0) + 1
            self.excluded_example.setdefault(fid, {"sub": sub, "case": case, "clause": v.clause})
            return True
        raise v

    def match_known(self, sub, case, v):
        preds = getattr(self.module, "KNOWN", {})
        for fid, pred in preds.items():
            if fid in self.known_active:
                try:
                    if pred(sub, case, v):
                        return fid
                except Exception:  # a predicate that cannot read the case does not match
                    continue
        return None

    def fail(self, sub, case, v: Violation):
        cand = {"sub": sub, "case": case, "clause": v.clause, "message": v.message[:2000]}
        if self.failure is None or len(json.dumps(case, default=repr)) <= len(
            json.dumps(self.failure["case"], default=repr)
        ):
            self.failure = cand

    # ---- drivers ----------------------------------------------------------------------
    def sweep(self, sub: str, cases, nontrivial=None, classify=None, exhaustive_name=None, stride=True):
        """Deterministic enumeration.  `cases` is an iterable; this shard takes every
        nshards-th element.  Stops at the first unlisted violation."""
        fn = self.module.SUBS[sub]
        complete = True
        for i, case in enumerate(cases):
            if stride and not self.mine(i):
                continue
            if (self.evaluations & 0xFF) == 0 and self.expired():
                complete = False
                break
            if classify:
                for c in classify(case):
                    self.count(c)
            if nontrivial is None or nontrivial(case):
                self.nt_enum += 1
            if len(self.samples) < 2 and (nontrivial is None or nontrivial(case)):
                self.samples.append({"sub": sub, "case": case})
            try:
                self.evaluate(sub, case, fn)
            except Violation as v:
                self.fail(sub, case, v)
                complete = False
                break
        if exhaustive_name:
            self.exhaustive[exhaustive_name] = complete and self.exhaustive.get(exhaustive_name, True)
        return self.failure is None

    def given(self, sub: str, strategy, max_examples: int, nontrivial=None, classify=None):
        """Hypothesis campaign for SUBS[sub]; cases must be JSON-serialisable."""
        from hypothesis import HealthCheck, Phase, given, seed, settings

        fn = self.module.SUBS[sub]
        state = {"t": None}
        shrink_budget = SHRINK_BUDGET[self.tier]
        ctx = self

        @seed(self.derive_seed(sub))
        @settings(
            max_examples=max_examples,
            database=None,
            deadline=None,
            report_multiple_bugs=False,
            derandomize=False,
            suppress_health_check=list(HealthCheck),
            phases=[Phase.generate, Phase.shrink],
            print_blob=False,
        )
        @given(strategy)
        def test(case):
            if state["t"] is None and ctx.expired():
                raise _BudgetStop  # not an Exception: hypothesis lets it through, no more examples are generated
            if state["t"] is not None and time.monotonic() - state["t"] > shrink_budget:
                return  # let the shrinker converge on the best case so far
            if state["t"] is None:
                if classify:
                    for c in classify(case):
                        ctx.count(c)
                if nontrivial is None or nontrivial(case):
                    ctx.nontrivial(case)
                    if len(ctx.samples) < 3:
                        ctx.samples.append({"sub": sub, "case": case})
            try:
                ctx.evaluate(sub, case, fn)
            except Violation as v:
                if state["t"] is None:
                    state["t"] = time.monotonic()
                ctx.fail(sub, case, v)
                raise

        try:
            test()
        except (Violation, _BudgetStop):
            pass
        except BaseException as e:  # noqa: BLE001  Flaky etc. after the shrink budget ran out
            if self.failure is None:
                raise
            self.notes.append(f"hypothesis ended with {type(e).__name__} after a recorded failure")
        return self.failure is None

    # ---- result -----------------------------------------------------------------------
    def result(self):
        return {
            "shard": self.shard,
            "evaluations": self.evaluations,
            "nt_hashes": sorted(self.nt_hashes),
            "nt_enum": self.nt_enum,
            "classes": self.classes,
            "discarded": self.discarded,
            "excluded": self.excluded,
            "excluded_example": self.excluded_example,
            "samples": self.samples,
            "failure": self.failure,
            "inconclusive": self.inconclusive,
            "exhaustive": self.exhaustive,
            "notes": self.notes,
            "survey": self.survey,
            "wall_s": time.monotonic() - self.t0,
            "cpu_s": time.process_time() - self.cpu0,
        }


# ---------------------------------------------------------------------------------------
# known findings


def _read_json_retry(path, tries=5):
    """fragments may be rewritten by a concurrent development session: retry a torn read"""
    for k in range(tries):
        try:
            with open(path) as f:
                return json.load(f)
        except json.JSONDecodeError:
            if k == tries - 1:
                raise
            time.sleep(0.2)
    return None


def load_findings():
    """The list of recorded findings: known_findings.d/Cxx.json (one fragment per property, the working copies)
    and known_findings.json (the committed union, written by tools_findings_merge.py); duplicates by id are
    dropped, the fragment wins."""
    out, seen = [], set()
    paths = []
    d = os.path.join(ROOT, "known_findings.d")
    if os.path.isdir(d):
        paths += [os.path.join(d, name) for name in sorted(os.listdir(d)) if name.endswith(".json")]
    paths.append(os.path.join(ROOT, "known_findings.json"))
    for p in paths:
        if not os.path.exists(p):
            continue
        for f in _read_json_retry(p)["findings"]:
            if f["id"] not in seen:
                seen.add(f["id"])
                out.append(f)
    return out


def load_known_ids(prop):
    return {f["id"] for f in load_findings() if f["property"] == prop and f["status"] == "known"}


# ---------------------------------------------------------------------------------------
# module loading


def setup_path():
    if REPO not in sys.path:
        sys.path.insert(0, REPO)
    if ROOT not in sys.path:
        sys.path.insert(0, ROOT)
    deps = os.path.join(ROOT, ".deps")
    if os.path.isdir(deps) and deps not in sys.path:
        sys.path.append(deps)


def load_module(prop):
    setup_path()
    import urwid

    real = os.path.realpath(urwid.__file__)
    if not real.startswith(os.path.realpath(REPO) + os.sep):
        raise RuntimeError(f"urwid imported from {real}, expected under {REPO}")
    return importlib.import_module(f"checks.{CHECKS[prop]}")


def run_one(module, sub, case):
    """Evaluate one case outside any campaign.  Returns None or a Violation."""
    ctx = Ctx(module.PROPERTY, module, "quick", 0, 0, 1)
    ctx.known_active = set()
    try:
        ctx.evaluate(sub, case)
    except Violation as v:
        return v
    return None


# ---------------------------------------------------------------------------------------
# worker / parent


def worker_main(prop, tier, seed, shard, nshards, out_path):
    module = load_module(prop)
    ctx = Ctx(prop, module, tier, seed, shard, nshards)
    module.shard(ctx)
    with open(out_path, "w") as f:
        json.dump(ctx.result(), f, default=repr)


def replay_file(module, path):
    with open(path) as f:
        rec = json.load(f)
    return rec, run_one(module, rec["sub"], rec["case"])


def parent_main(prop, tier, seed, replay=None, shards=None):
    t0 = time.monotonic()
    module = load_module(prop)
    rel = lambda p: os.path.relpath(p, ROOT)  # noqa: E731

    if replay:
        rec, v = replay_file(module, replay)
        if v is None:
            print(f"replay {replay}: property {prop} holds on this case")
            return 0
        print(f"replay {replay}: {v.clause}: {v.message[:500]}")
        print(f"VIOLATION property={prop} replay={os.path.abspath(replay)}")
        return 1

    violations = []
    known_lines = []
    findings = [f for f in load_findings() if f["property"] == prop]

    # 1. known findings: confirm each recorded defect is still there (KNOWN-FINDING line, exit 0)
    for f in findings:
        if f["status"] != "known":
            continue
        path = os.path.join(ROOT, f["example_replay"])
        rec, v = replay_file(module, path)
        pred = getattr(module, "KNOWN", {}).get(f["id"])
        if v is not None and pred is not None and pred(rec["sub"], rec["case"], v):
            known_lines.append(f"KNOWN-FINDING: property={prop} {f['what']}")
        elif v is not None:
            violations.append((path, f"listed example of {f['id']} now fails differently: {v.clause}"))
        else:
            print(f"note: listed finding {f['id']} no longer reproduces on this tree")

    # 2. regression tier: committed replay files (shrunk earlier failures, fixed defects, mutant kills)
    rdir = os.path.join(ROOT, "replays", prop)
    known_examples = {os.path.join(ROOT, f["example_replay"]) for f in findings if f["status"] == "known"}
    n_replays = 0
    if os.path.isdir(rdir):
        for name in sorted(os.listdir(rdir)):
            path = os.path.join(rdir, name)
            if not name.endswith(".json") or name.startswith("found_") or path in known_examples:
                continue
            if name.startswith("mutant_") and os.environ.get("VERIF_SKIP_MUTANT_REPLAYS"):
                continue  # tools_seed.py: judge the campaign alone, not replays derived from similar breakages
            n_replays += 1
            rec, v = replay_file(module, path)
            if v is not None:
                violations.append((path, f"{v.clause}: {v.message[:300]}"))

    # 3. the campaign, sharded over fresh processes
    nshards = shards or getattr(module, "SHARDS", {}).get(tier, 16)
    work = os.path.join(ROOT, ".work", f"{prop}-{tier}-{os.getpid()}")
    os.makedirs(work, exist_ok=True)
    env = dict(os.environ, PYTHONHASHSEED="0", VERIF_REPO=REPO, PYTHONDONTWRITEBYTECODE="1")
    procs = []
    for i in range(nshards):
        out = os.path.join(work, f"shard{i}.json")
        cmd = [sys.executable, os.path.join(ROOT, "run.py"), prop, "--tier", tier, "--worker",
               str(i), "--nshards", str(nshards), "--out", out]
        env_i = dict(env, VERIF_SEED=str(seed))
        log = open(os.path.join(work, f"shard{i}.log"), "w")
        procs.append((i, out, subprocess.Popen(cmd, env=env_i, stdout=log, stderr=subprocess.STDOUT, cwd=ROOT), log))
    results, harness_errors = [], []
    hard_limit = float(os.environ.get("VERIF_BUDGET", BUDGET[tier])) * WALL_FACTOR + 180
    for i, out, p, log in procs:
        try:
            rc = p.wait(timeout=max(5.0, hard_limit - (time.monotonic() - t0)))
        except subprocess.TimeoutExpired:
            p.kill()
            rc = -9
        log.close()
        if rc == 0 and os.path.exists(out):
            with open(out) as f:
                results.append(json.load(f))
        else:
            with open(os.path.join(work, f"shard{i}.log")) as f:
                harness_errors.append((i, rc, f.read()[-3000:]))

    # 4. merge
    ev = sum(r["evaluations"] for r in results)
    hashes = set()
    classes, excluded, exhaustive = {}, {}, {}
    samples, notes = [], []
    discarded = nt_enum = 0
    inconclusive = False
    failure = None
    excl_examples = {}
    for r in results:
        hashes.update(r["nt_hashes"])
        nt_enum += r["nt_enum"]
        discarded += r["discarded"]
        inconclusive |= r["inconclusive"]
        for k, n in r["classes"].items():
            classes[k] = classes.get(k, 0) + n
        for k, n in r["excluded"].items():
            excluded[k] = excluded.get(k, 0) + n
        for k, e in r["excluded_example"].items():
            excl_examples.setdefault(k, e)
        for k, b in r["exhaustive"].items():
            exhaustive[k] = exhaustive.get(k, True) and b
        if len(samples) < 6:
            samples.extend(r["samples"][: 6 - len(samples)])
        notes.extend(r["notes"])
        f = r["failure"]
        if f is not None and (
            failure is None or len(json.dumps(f["case"])) < len(json.dumps(failure["case"]))
        ):
            failure = f
    if os.environ.get("VERIF_SURVEY"):
        survey = {}
        for r in results:
            for k, e in r.get("survey", {}).items():
                cur = survey.get(k)
                if cur is None:
                    survey[k] = dict(e)
                else:
                    n = cur["n"] + e["n"]
                    if e["size"] < cur["size"]:
                        survey[k] = dict(e)
                    survey[k]["n"] = n
        with open(os.path.join(ROOT, ".work", f"survey-{prop}.json"), "w") as f:
            json.dump(survey, f, indent=1, default=repr)
        for k, e in sorted(survey.items()):
            print(f"SURVEY {k} x{e['n']}: {e['message'][:300]}\n    case={json.dumps(e['case'], default=repr)[:1200]}")
    if failure is not None:
        h = jhash([failure["sub"], failure["case"]])
        # VERIF_FOUND_DIR: runs against deliberately broken trees keep their findings out of replays/
        fdir = os.path.join(os.environ.get("VERIF_FOUND_DIR") or os.path.join(ROOT, "replays"), prop)
        os.makedirs(fdir, exist_ok=True)
        path = os.path.join(fdir, f"found_{h:016x}.json")
        with open(path, "w") as f:
            json.dump(dict(property=prop, **failure), f, indent=1, default=repr)
        violations.append((path, f"{failure['sub']}: {failure['clause']}: {failure['message'][:400]}"))

    wall = time.monotonic() - t0
    evidence = {
        "property_id": prop,
        "tier": tier,
        "seed": seed,
        "level": module.LEVEL,
        "coverage": {
            "evaluations": ev + n_replays,
            "distinct_nontrivial": len(hashes) + nt_enum,
            "rule": module.RULE,
            "samples": samples,
            "classes": dict(sorted(classes.items())),
            "discarded": discarded,
            "excluded_known": excluded,
            "excluded_known_examples": excl_examples,
            "replayed_regression_cases": n_replays,
            "exhaustive_subdomains": exhaustive,
            "exhaustive": bool(exhaustive) and all(exhaustive.values()) and getattr(module, "ALL_EXHAUSTIVE", False),
            "inconclusive_budget_hit": inconclusive,
            "shards": nshards,
            "shards_failed": len(harness_errors),
            "shard_cpu_s_max": round(max((r.get("cpu_s", 0.0) for r in results), default=0.0), 1),
            "shard_cpu_s_total": round(sum(r.get("cpu_s", 0.0) for r in results), 1),
            "notes": notes[:10],
        },
        "assumptions": list(getattr(module, "ASSUMPTIONS", [])),
        "wall_s": round(wall, 2),
        "violations": len(violations),
    }
    # VERIF_EVIDENCE_DIR: used by tools_seed.py / selftest so that runs against a deliberately broken
    # tree never overwrite the evidence of the real tree
    evdir = os.environ.get("VERIF_EVIDENCE_DIR") or os.path.join(ROOT, "evidence")
    os.makedirs(evdir, exist_ok=True)
    with open(os.path.join(evdir, f"{prop}.json"), "w") as f:
        json.dump(evidence, f, indent=1, default=repr)
        f.write("\n")

    for line in known_lines:
        print(line)
    for ln in findings:
        if ln["status"] == "fixed":
            print(f"fixed: property={prop} {ln.get('commit', '?')} {ln['what']}")
    print(
        f"{prop} {tier} seed={seed}: {ev} evaluations, {len(hashes) + nt_enum} distinct non-trivial, "
        f"{discarded} discarded, excluded_known={excluded}, replays={n_replays}, "
        f"inconclusive={inconclusive}, wall={wall:.1f}s, cpu/shard max={max((r.get('cpu_s', 0.0) for r in results), default=0.0):.1f}s"
    )
    # clean work dir
    if not harness_errors:
        for name in os.listdir(work):
            os.unlink(os.path.join(work, name))
        os.rmdir(work)
    if violations:
        for path, msg in violations:
            print(f"  {msg}")
            print(f"VIOLATION property={prop} replay={os.path.abspath(path)}")
        return 1
    if harness_errors:
        for i, rc, tail in harness_errors:
            print(f"HARNESS-ERROR shard {i} rc={rc}\n{tail}", file=sys.stderr)
        return 2
    return 0


def main(argv=None):
    import argparse

    ap = argparse.ArgumentParser()
    ap.add_argument("prop")
    ap.add_argument("--tier", default=os.environ.get("VERIF_TIER", "quick"), choices=["quick", "thorough"])
    ap.add_argument("--replay")
    ap.add_argument("--worker", type=int)
    ap.add_argument("--nshards", type=int)
    ap.add_argument("--out")
    ap.add_argument("--shards", type=int)
    a = ap.parse_args(argv)
    seed = int(os.environ.get("VERIF_SEED", "1") or 1)
    try:
        if a.worker is not None:
            worker_main(a.prop, a.tier, seed, a.worker, a.nshards, a.out)
            return 0
        return parent_main(a.prop, a.tier, seed, replay=a.replay, shards=a.shards)
    except Exception:  # noqa: BLE001
        traceback.print_exc()
        return 2
