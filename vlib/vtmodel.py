"""Reference VT100/xterm terminal model (shared by C04, C12, C15, C17).

Written from ECMA-48, the DEC VT102/VT510 manuals and the xterm ctlseqs document -- NOT derived
from urwid/vterm.py.  It is xterm-flavoured where real terminals differ; every place where
widely used terminals are known to disagree appends a note to ``VT.ambiguities`` so a
differential check can discard / weaken instead of asserting this model's choice.

Public API
----------
``Cell(glyph, fg, bg, flags, width)``   namedtuple. glyph: str (base char + combining marks; " " blank;
        "" for the right half of a double-width glyph).  fg/bg: None (default) | int 0..255 (palette;
        30-37 -> 0..7, 90-97 -> 8..15) | (r, g, b).  flags: frozenset of "bold" "dim" "italic"
        "underline" "blink" "reverse" "conceal" "strike".  width: 1 normal, 2 left half, 0 right half.
``VT(cols, rows, bce=True, strict=False, encoding="utf-8", da_reply=b"\\x1b[?6c")``
  feed(data: bytes|str)      interpret output of a program (any chunking)
  resize(cols, rows)
  grid[r][c] -> Cell         the visible screen (alternate screen when alt_screen)
  cursor -> (x, y)           0-based;  x, y attributes; pending_wrap (DEC "last column flag")
  cursor_visible, alt_screen, autowrap, origin_mode, insert_mode, app_cursor_keys, app_keypad,
  bracketed_paste, focus_events, mouse (frozenset of enabled {9,1000,1002,1003}), mouse_sgr (1006),
  modes (dict of DEC private modes), lnm
  top, bottom                scrolling region (0-based, inclusive)
  g (list of 4 charset ids), gl (0/1: SI/SO), font (0/1: ESC[10m / ESC[11m)
  pen_fg, pen_bg, pen_flags  current SGR state
  title, icon_title, osc_log, dcs_log
  scroll_events, wrap_events, bell_count
  scrollback                 rows that left the top of the main screen (list of list of Cell)
  replies                    list of bytes answered to DSR/CPR/DA/DECRQM (drained by the caller)
  errors                     list of unknown / malformed sequences (strict=True raises VTError)
  ambiguities                notes where real terminals differ (model took xterm's side)
  row_text(r), text(), snapshot(), mode_snapshot(), is_initial_modes()
"""
from __future__ import annotations

import codecs
from collections import namedtuple

import wcwidth as _wc

Cell = namedtuple("Cell", "glyph fg bg flags width", defaults=(1,))
NOFLAGS = frozenset()
BLANK = Cell(" ", None, None, NOFLAGS, 1)

MAXPARAM = 1_000_000  # numeric parameters saturate here (cost bound; every use is clamped to the grid)

DEC_SPECIAL = dict(zip(
    "_`abcdefghijklmnopqrstuvwxyz{|}~",
    " ◆▒␉␌␍␊°±␤␋┘┐┌└┼"
    "⎺⎻─⎼⎽├┤┴┬│≤≥π≠£·",
))

# DEC private modes the model understands (anything else is reported in errors)
KNOWN_DEC_MODES = {
    1, 3, 4, 5, 6, 7, 8, 9, 12, 25, 40, 45, 47, 66, 67, 69, 1000, 1001, 1002, 1003, 1004, 1005, 1006,
    1007, 1015, 1016, 1034, 1035, 1036, 1037, 1039, 1042, 1043, 1047, 1048, 1049, 2004, 2026,
}
MOUSE_MODES = (9, 1000, 1002, 1003)
DEC_DEFAULT_ON = {7, 25}


class VTError(Exception):
    pass


def _width(ch: str) -> int:
    o = ord(ch)
    if 0x20 <= o < 0x7F:
        return 1
    return _wc.wcwidth(ch)


class VT:
    def __init__(self, cols, rows, bce=True, strict=False, encoding="utf-8", da_reply=b"\x1b[?6c"):
        if cols < 1 or rows < 1:
            raise ValueError("terminal size must be >= 1x1")
        self.cols, self.rows = cols, rows
        self.bce, self.strict = bce, strict
        self.encoding = encoding
        self.da_reply = da_reply
        self._decoder = codecs.getincrementaldecoder(encoding)("replace")
        self.replies: list[bytes] = []
        self.errors: list[str] = []
        self.ambiguities: list[str] = []
        self.osc_log: list[str] = []
        self.dcs_log: list[str] = []
        self.scroll_events = self.wrap_events = self.bell_count = 0
        self.title = self.icon_title = None
        self._hard_reset()

    # ------------------------------------------------------------------ state
    def _hard_reset(self):
        self.main = [self._blank_row(BLANK) for _ in range(self.rows)]
        self.alt = [self._blank_row(BLANK) for _ in range(self.rows)]
        self.grid = self.main
        self.scrollback: list[list[Cell]] = []
        self.modes = {m: (m in DEC_DEFAULT_ON) for m in KNOWN_DEC_MODES}
        self.insert_mode = False
        self.lnm = False
        self.app_keypad = False
        self.x = self.y = 0
        self.pending_wrap = False
        self.top, self.bottom = 0, self.rows - 1
        self.pen_fg = self.pen_bg = None
        self.pen_flags = NOFLAGS
        self.g = ["B", "B", "B", "B"]
        self.gl = 0
        self._single_shift = None
        self.font = 0
        self.cursor_style = None
        self._saved = {False: None, True: None}  # per screen (main / alt)
        self._last_graphic = None
        self._reset_tabs()
        self._state = "ground"
        self._inter = ""
        self._pbuf = ""
        self._sbuf = []
        self._skind = ""

    def _reset_tabs(self):
        self.tabs = set(range(8, self.cols, 8))

    # convenience views of the mode table
    alt_screen = property(lambda s: s.grid is s.alt)
    cursor = property(lambda s: (s.x, s.y))
    cursor_visible = property(lambda s: s.modes[25])
    autowrap = property(lambda s: s.modes[7])
    origin_mode = property(lambda s: s.modes[6])
    app_cursor_keys = property(lambda s: s.modes[1])
    bracketed_paste = property(lambda s: s.modes[2004])
    focus_events = property(lambda s: s.modes[1004])
    mouse_sgr = property(lambda s: s.modes[1006])
    mouse = property(lambda s: frozenset(m for m in MOUSE_MODES if s.modes[m]))

    def mode_snapshot(self):
        return {
            "alt_screen": self.alt_screen, "cursor_visible": self.cursor_visible, "mouse": sorted(self.mouse),
            "mouse_sgr": self.mouse_sgr, "mouse_utf8": self.modes[1005], "mouse_urxvt": self.modes[1015],
            "bracketed_paste": self.bracketed_paste, "focus_events": self.focus_events,
            "app_cursor_keys": self.app_cursor_keys, "app_keypad": self.app_keypad,
            "insert_mode": self.insert_mode, "autowrap": self.autowrap, "origin_mode": self.origin_mode,
            "region": (self.top, self.bottom), "gl": self.gl, "font": self.font,
        }

    def is_initial_modes(self):
        """True when the modes a well-behaved full-screen program must restore are at power-on values."""
        return (not self.alt_screen and self.cursor_visible and not self.mouse and not self.mouse_sgr
                and not self.modes[1005] and not self.modes[1015] and not self.bracketed_paste
                and not self.focus_events and not self.insert_mode and not self.app_keypad)

    def _err(self, msg):
        self.errors.append(msg)
        if self.strict:
            raise VTError(msg)

    def _amb(self, msg):
        self.ambiguities.append(msg)

    # ------------------------------------------------------------------ cells / rows
    def _erased(self):
        return Cell(" ", None, self.pen_bg if self.bce else None, NOFLAGS, 1)

    def _blank_row(self, cell=None):
        return [cell or self._erased()] * self.cols

    @staticmethod
    def _fix_row(row):
        """blank out halves of double-width glyphs that lost their partner"""
        n = len(row)
        for i, c in enumerate(row):
            if c.width == 2 and (i + 1 >= n or row[i + 1].width != 0):
                row[i] = c._replace(glyph=" ", width=1)
            elif c.width == 0 and (i == 0 or row[i - 1].width != 2):
                row[i] = c._replace(glyph=" ", width=1)

    def row_text(self, r, grid=None):
        return "".join(c.glyph for c in (grid or self.grid)[r])

    def text(self):
        return "\n".join(self.row_text(r) for r in range(self.rows))

    def snapshot(self):
        return tuple(tuple(row) for row in self.grid)

    # ------------------------------------------------------------------ scrolling
    def _scroll_up(self, top, bottom, n=1):
        n = min(n, bottom - top + 1)
        if n <= 0:
            return
        self.scroll_events += 1
        g = self.grid
        if top == 0 and g is self.main:
            self.scrollback.extend(list(r) for r in g[0:n])
        g[top : bottom + 1] = g[top + n : bottom + 1] + [self._blank_row() for _ in range(n)]

    def _scroll_down(self, top, bottom, n=1):
        n = min(n, bottom - top + 1)
        if n <= 0:
            return
        self.scroll_events += 1
        g = self.grid
        g[top : bottom + 1] = [self._blank_row() for _ in range(n)] + g[top : bottom + 1 - n]

    def _index(self):
        if self.y == self.bottom:
            self._scroll_up(self.top, self.bottom, 1)
        elif self.y < self.rows - 1:
            self.y += 1

    def _reverse_index(self):
        if self.y == self.top:
            self._scroll_down(self.top, self.bottom, 1)
        elif self.y > 0:
            self.y -= 1

    # ------------------------------------------------------------------ printing
    def _map_charset(self, ch):
        if self._single_shift is not None:
            cs = self.g[self._single_shift]
            self._single_shift = None
        else:
            cs = self.g[self.gl]
        o = ord(ch)
        if self.font == 1 and o < 256:
            return bytes([o]).decode("cp437")
        if cs == "0" and 0x5F <= o <= 0x7E:
            return DEC_SPECIAL[ch]
        if cs == "A" and ch == "#":
            return "£"
        if cs == "U" and o < 256:
            return bytes([o]).decode("cp437")
        return ch

    def _print(self, ch):
        ch = self._map_charset(ch)
        w = _width(ch)
        if w < 0:
            self._amb(f"non-printable U+{ord(ch):04X} ignored")
            return
        if w == 0:
            px = self.x if self.pending_wrap else self.x - 1
            if px >= 0:
                row = self.grid[self.y]
                if row[px].width == 0 and px > 0:
                    px -= 1
                row[px] = row[px]._replace(glyph=row[px].glyph + ch)
            return
        if w > self.cols:
            self._amb("double-width glyph on a 1-column terminal")
            return
        if self.pending_wrap:
            self.pending_wrap = False
            self.wrap_events += 1
            self.x = 0
            self._index()
        if w == 2 and self.x == self.cols - 1:
            if self.autowrap:
                self.wrap_events += 1
                self.x = 0
                self._index()
            else:
                self._amb("double-width glyph at the last column without autowrap")
                return
        row = self.grid[self.y]
        if self.insert_mode:
            del row[self.cols - w :]
            row[self.x : self.x] = [BLANK] * w
        cell = Cell(ch, self.pen_fg, self.pen_bg, self.pen_flags, w)
        row[self.x] = cell
        if w == 2:
            row[self.x + 1] = Cell("", self.pen_fg, self.pen_bg, self.pen_flags, 0)
        self._fix_row(row)
        self._last_graphic = ch
        if self.x + w >= self.cols:
            self.x = self.cols - 1
            self.pending_wrap = self.autowrap
        else:
            self.x += w

    # ------------------------------------------------------------------ C0
    def _c0(self, o):
        if o == 0x07:
            self.bell_count += 1
        elif o == 0x08:
            if self.pending_wrap:
                self._amb("BS with pending wrap")
            self.pending_wrap = False
            if self.x > 0:
                self.x -= 1
        elif o == 0x09:
            self._tab(1)
        elif o in (0x0A, 0x0B, 0x0C):
            self.pending_wrap = False
            self._index()
            if self.lnm:
                self.x = 0
        elif o == 0x0D:
            self.pending_wrap = False
            self.x = 0
        elif o == 0x0E:
            self.gl = 1
        elif o == 0x0F:
            self.gl = 0
        # NUL ENQ DEL and the rest: ignored

    def _tab(self, n):
        if self.pending_wrap:
            self._amb("HT with pending wrap")  # xterm keeps the flag, most others clear it
            return
        for _ in range(min(n, self.cols)):
            nxt = [t for t in self.tabs if t > self.x]
            self.x = min(nxt) if nxt else self.cols - 1
            self.x = min(self.x, self.cols - 1)

    def _back_tab(self, n):
        self.pending_wrap = False
        for _ in range(min(n, self.cols)):
            prv = [t for t in self.tabs if t < self.x]
            self.x = max(prv) if prv else 0

    # ------------------------------------------------------------------ cursor helpers
    def _goto(self, x, y, origin=None):
        """absolute move, 0-based, honouring origin mode for the row"""
        origin = self.origin_mode if origin is None else origin
        if origin:
            y = min(max(y + self.top, self.top), self.bottom)
        else:
            y = min(max(y, 0), self.rows - 1)
        self.x = min(max(x, 0), self.cols - 1)
        self.y = y
        self.pending_wrap = False

    def _up(self, n):
        lim = self.top if self.y >= self.top else 0
        self.y = max(lim, self.y - n)
        self.pending_wrap = False

    def _down(self, n):
        lim = self.bottom if self.y <= self.bottom else self.rows - 1
        self.y = min(lim, self.y + n)
        self.pending_wrap = False

    def _save_cursor(self):
        self._saved[self.alt_screen] = (self.x, self.y, self.pending_wrap, self.pen_fg, self.pen_bg, self.pen_flags,
                                        list(self.g), self.gl, self.modes[6], self.font)

    def _restore_cursor(self):
        s = self._saved[self.alt_screen]
        if s is None:
            self.x = self.y = 0
            self.pending_wrap = False
            self.pen_fg = self.pen_bg = None
            self.pen_flags = NOFLAGS
            self.g, self.gl, self.font = ["B", "B", "B", "B"], 0, 0
            self.modes[6] = False
            return
        (self.x, self.y, self.pending_wrap, self.pen_fg, self.pen_bg, self.pen_flags, g, self.gl, self.modes[6],
         self.font) = s
        self.g = list(g)
        self.x = min(self.x, self.cols - 1)
        self.y = min(self.y, self.rows - 1)

    # ------------------------------------------------------------------ erase / insert / delete
    def _erase_cells(self, y, x0, x1):
        """erase columns x0..x1-1 of row y"""
        row = self.grid[y]
        x0, x1 = max(0, x0), min(self.cols, x1)
        if x0 < x1:
            row[x0:x1] = [self._erased()] * (x1 - x0)
            self._fix_row(row)

    def _el(self, mode):
        if mode == 0:
            self._erase_cells(self.y, self.x, self.cols)
        elif mode == 1:
            self._erase_cells(self.y, 0, self.x + 1)
        elif mode == 2:
            self._erase_cells(self.y, 0, self.cols)
        else:
            self._err(f"EL {mode}")
            return
        self.pending_wrap = False

    def _ed(self, mode):
        if mode == 0:
            self._erase_cells(self.y, self.x, self.cols)
            for r in range(self.y + 1, self.rows):
                self._erase_cells(r, 0, self.cols)
        elif mode == 1:
            for r in range(0, self.y):
                self._erase_cells(r, 0, self.cols)
            self._erase_cells(self.y, 0, self.x + 1)
        elif mode == 2:
            for r in range(self.rows):
                self._erase_cells(r, 0, self.cols)
        elif mode == 3:
            self.scrollback = []
            return
        else:
            self._err(f"ED {mode}")
            return
        self.pending_wrap = False

    def _ich(self, n):
        row = self.grid[self.y]
        n = min(n, self.cols - self.x)
        row[self.x : self.x] = [self._erased()] * n
        del row[self.cols :]
        self._fix_row(row)
        self.pending_wrap = False

    def _dch(self, n):
        row = self.grid[self.y]
        n = min(n, self.cols - self.x)
        del row[self.x : self.x + n]
        row.extend([self._erased()] * n)
        self._fix_row(row)
        self.pending_wrap = False

    def _ech(self, n):
        self._erase_cells(self.y, self.x, self.x + min(n, self.cols))
        self.pending_wrap = False

    def _il(self, n):
        if not self.top <= self.y <= self.bottom:
            return
        self._scroll_down(self.y, self.bottom, n)
        self.scroll_events -= 1 if n > 0 else 0  # IL/DL are not "the screen scrolled" events
        self._amb("cursor column after IL/DL")  # DEC/xterm: left margin; linux console: unchanged
        self.x = 0
        self.pending_wrap = False

    def _dl(self, n):
        if not self.top <= self.y <= self.bottom:
            return
        n = min(n, self.bottom - self.y + 1)
        g = self.grid
        g[self.y : self.bottom + 1] = g[self.y + n : self.bottom + 1] + [self._blank_row() for _ in range(n)]
        self._amb("cursor column after IL/DL")
        self.x = 0
        self.pending_wrap = False

    def _decstbm(self, top, bottom):
        """1-based parameters, 0 = default"""
        top = top or 1
        if bottom == 0 or bottom > self.rows:
            if bottom > self.rows:
                self._amb("DECSTBM bottom beyond the screen")  # xterm clamps, linux ignores the sequence
            bottom = self.rows
        if top < bottom:
            self.top, self.bottom = top - 1, bottom - 1
            self._goto(0, 0)
        elif top == bottom:
            self._amb("DECSTBM one-line region")  # xterm/DEC ignore; some emulators accept

    # ------------------------------------------------------------------ resize
    def resize(self, cols, rows):
        if cols < 1 or rows < 1:
            raise ValueError("terminal size must be >= 1x1")
        self._amb("resize")
        for g in (self.main, self.alt):
            for row in g:
                if cols < self.cols:
                    del row[cols:]
                else:
                    row.extend([BLANK] * (cols - self.cols))
                self._fix_row(row)
        y = self.y
        for g in (self.main, self.alt):
            if rows < self.rows:
                cut = self.rows - rows
                below = min(cut, self.rows - 1 - self.y)
                if below:
                    del g[self.rows - below :]
                head = cut - below
                if head:
                    if g is self.main:
                        self.scrollback.extend(g[:head])
                    del g[:head]
                    if g is self.grid:
                        y = self.y - head
            else:
                g.extend([BLANK] * cols for _ in range(rows - self.rows))
        old_cols = self.cols
        self.cols, self.rows = cols, rows
        self.tabs = {t for t in self.tabs if t < cols} | set(range(((old_cols + 7) // 8) * 8, cols, 8))
        self.tabs.discard(0)
        self.top, self.bottom = 0, rows - 1
        self.x = min(self.x, cols - 1)
        self.y = min(max(y, 0), rows - 1)
        self.pending_wrap = False

    # ------------------------------------------------------------------ parser
    def feed(self, data):
        """Interpret program output.  bytes are decoded incrementally (invalid input -> U+FFFD)."""
        if isinstance(data, (bytes, bytearray, memoryview)):
            data = self._decoder.decode(bytes(data))
        for ch in data:
            self._char(ch)

    def _char(self, ch):
        o = ord(ch)
        st = self._state
        # C1 controls (8-bit or decoded from UTF-8) behave as ESC + (code - 0x40); inside strings only ST matters
        if 0x80 <= o <= 0x9F:
            if st in ("osc", "str", "osc_esc", "str_esc"):
                if o == 0x9C:
                    self._end_string()
                return
            self._state = "ground"
            self._esc_dispatch("", chr(o - 0x40))
            return
        if st == "ground":
            if o >= 0x20 and o != 0x7F:
                self._print(ch)
            elif o == 0x1B:
                self._enter_esc()
            elif o < 0x20:
                self._c0(o)
            return
        if st in ("osc", "str"):
            if o == 0x1B:
                self._state = st + "_esc"
            elif o == 0x07 and st == "osc":
                self._end_string()
            elif o in (0x18, 0x1A):
                self._state = "ground"
            elif o >= 0x20 or st == "str":
                self._sbuf.append(ch)
            return
        if st in ("osc_esc", "str_esc"):
            if ch == "\\":
                self._end_string()
            else:  # ESC aborts the string and starts a new sequence
                self._enter_esc()
                self._char(ch)
            return
        # escape / CSI states: C0 controls execute in place
        if o == 0x1B:
            self._enter_esc()
            return
        if o in (0x18, 0x1A):
            self._state = "ground"
            return
        if o < 0x20:
            self._c0(o)
            return
        if o == 0x7F:
            return
        if st == "esc":
            if 0x20 <= o <= 0x2F:
                self._inter += ch
            elif o >= 0x80:
                self._state = "ground"
                self._err(f"ESC {self._inter!r} followed by non-ASCII")
            else:
                self._state = "ground"
                self._esc_dispatch(self._inter, ch)
            return
        if st == "csi":
            if 0x30 <= o <= 0x3F:
                if self._inter:
                    self._state = "csi_ignore"
                else:
                    self._pbuf += ch
            elif 0x20 <= o <= 0x2F:
                self._inter += ch
            elif 0x40 <= o <= 0x7E:
                self._state = "ground"
                self._csi_dispatch(self._pbuf, self._inter, ch)
            else:
                self._state = "ground"
                self._err("CSI interrupted by non-ASCII")
            return
        if st == "csi_ignore":
            if 0x40 <= o <= 0x7E or o >= 0x80:
                self._state = "ground"
                self._err("malformed CSI ignored")
            return
        raise AssertionError(st)

    def _enter_esc(self):
        self._state = "esc"
        self._inter = ""
        self._pbuf = ""

    def _start_string(self, kind):
        self._state = "osc" if kind == "osc" else "str"
        self._skind = kind
        self._sbuf = []

    def _end_string(self):
        s = "".join(self._sbuf)
        self._state = "ground"
        self._sbuf = []
        if self._skind != "osc":
            self.dcs_log.append(self._skind + ":" + s)
            return
        self.osc_log.append(s)
        num, _, rest = s.partition(";")
        if num in ("0", "2"):
            self.title = rest
        if num in ("0", "1"):
            self.icon_title = rest
        if not num.isdigit() and not (num[:1] in "LlIP" and num):  # xterm accepts a few letter forms too
            self._err(f"OSC {s[:20]!r}")

    # ------------------------------------------------------------------ ESC dispatch
    def _esc_dispatch(self, inter, f):
        if inter == "":
            if f == "[":
                self._state, self._pbuf, self._inter = "csi", "", ""
            elif f == "]":
                self._start_string("osc")
            elif f in "PX^_":
                self._start_string({"P": "dcs", "X": "sos", "^": "pm", "_": "apc"}[f])
            elif f == "7":
                self._save_cursor()
            elif f == "8":
                self._restore_cursor()
            elif f == "D":
                self.pending_wrap = False
                self._index()
            elif f == "E":
                self.pending_wrap = False
                self.x = 0
                self._index()
            elif f == "M":
                self.pending_wrap = False
                self._reverse_index()
            elif f == "H":
                if 0 < self.x < self.cols:
                    self.tabs.add(self.x)
            elif f == "c":
                self._hard_reset()
            elif f == "=":
                self.app_keypad = True
            elif f == ">":
                self.app_keypad = False
            elif f == "Z":
                self.replies.append(self.da_reply)
            elif f == "N":
                self._single_shift = 2
            elif f == "O":
                self._single_shift = 3
            elif f in "no|}~":  # LS2 LS3 LS3R LS2R LS1R: GR shifts never affect 7-bit text here
                if f in "no":
                    self.gl = 2 if f == "n" else 3
            elif f == "\\":
                pass  # stray ST
            else:
                self._err(f"ESC {f}")
            return
        i0 = inter[0]
        if i0 in "()*+" or i0 in "-./":
            idx = "()*+".index(i0) if i0 in "()*+" else "-./".index(i0) + 1
            if len(inter) == 1 and f in "B0AU12K<>456:79`=ECHQRYZ":
                self.g[idx] = f if f in "0AU" else "B"
                if f not in "B0AU":
                    self._amb(f"national charset {f}")
            else:
                self._err(f"charset designation ESC {inter}{f}")
        elif inter == "#":
            if f == "8":
                for r in range(self.rows):
                    self.grid[r] = [Cell("E", None, None, NOFLAGS, 1)] * self.cols
                self.top, self.bottom = 0, self.rows - 1
                self._goto(0, 0, origin=False)
            elif f not in "3456":
                self._err(f"ESC # {f}")
        elif inter == "%":
            if f not in "G@8":
                self._err(f"ESC % {f}")
        elif inter == " ":
            if f not in "FGLMN":
                self._err(f"ESC SP {f}")
        else:
            self._err(f"ESC {inter}{f}")

    # ------------------------------------------------------------------ CSI dispatch
    @staticmethod
    def _parse_params(pbuf):
        """'1;2:3;;4' -> [[1],[2,3],[None],[4]]; numbers saturate at MAXPARAM"""
        out = []
        if pbuf == "":
            return out
        for part in pbuf.split(";"):
            subs = []
            for s in part.split(":"):
                if s == "":
                    subs.append(None)
                elif s.isdigit():
                    subs.append(min(int(s[:9]) if len(s) <= 9 else MAXPARAM, MAXPARAM))
                else:
                    return None
            out.append(subs)
        return out

    def _csi_dispatch(self, pbuf, inter, f):
        private = ""
        if pbuf[:1] in ("?", ">", "<", "="):
            private, pbuf = pbuf[0], pbuf[1:]
        params = self._parse_params(pbuf)
        if params is None:
            self._err(f"CSI {private}{pbuf}{inter}{f}: malformed parameters")
            return
        flat = [p[0] for p in params]

        def arg(i, default=1):
            v = flat[i] if i < len(flat) else None
            return default if v is None or (v == 0 and default != 0) else v

        def raw(i):
            v = flat[i] if i < len(flat) else None
            return 0 if v is None else v

        key = private + inter + f
        if private == "" and inter == "":
            if f == "@":
                self._ich(arg(0))
            elif f == "A":
                self._up(arg(0))
            elif f in "Be":
                self._down(arg(0))
            elif f in "Ca":
                self.x = min(self.cols - 1, self.x + arg(0))
                self.pending_wrap = False
            elif f == "D":
                self.x = max(0, self.x - arg(0))
                self.pending_wrap = False
            elif f == "E":
                self._down(arg(0))
                self.x = 0
            elif f == "F":
                self._up(arg(0))
                self.x = 0
            elif f in "G`":
                self.x = min(self.cols - 1, arg(0) - 1)
                self.pending_wrap = False
            elif f in "Hf":
                self._goto(arg(1) - 1, arg(0) - 1)
            elif f == "I":
                self._tab(arg(0))
            elif f == "J":
                self._ed(raw(0))
            elif f == "K":
                self._el(raw(0))
            elif f == "L":
                self._il(arg(0))
            elif f == "M":
                self._dl(arg(0))
            elif f == "P":
                self._dch(arg(0))
            elif f == "S":
                self._scroll_up(self.top, self.bottom, arg(0))
            elif f == "T":
                if len(flat) <= 1:
                    self._scroll_down(self.top, self.bottom, arg(0))
                # more parameters: xterm highlight mouse tracking, no screen effect
            elif f == "X":
                self._ech(arg(0))
            elif f == "Z":
                self._back_tab(arg(0))
            elif f == "b":
                if self._last_graphic is not None:
                    keep = self.g, self.gl, self.font
                    self.g, self.gl, self.font = ["B"] * 4, 0, 0
                    for _ in range(min(arg(0), self.cols * self.rows)):
                        self._print(self._last_graphic)
                    self.g, self.gl, self.font = keep
            elif f == "c":
                if raw(0) == 0:
                    self.replies.append(self.da_reply)
            elif f == "d":
                self._goto(self.x, arg(0) - 1)
            elif f == "g":
                if raw(0) == 0:
                    self.tabs.discard(self.x)
                elif raw(0) == 3:
                    self.tabs.clear()
            elif f in "hl":
                for v in flat:
                    if v == 4:
                        self.insert_mode = f == "h"
                    elif v == 20:
                        self.lnm = f == "h"
                    elif v in (2, 12):
                        pass  # KAM, SRM
                    else:
                        self._err(f"ANSI mode {v}")
            elif f == "m":
                self._sgr(params)
            elif f == "n":
                if raw(0) == 5:
                    self.replies.append(b"\x1b[0n")
                elif raw(0) == 6:
                    y = self.y - self.top if self.origin_mode else self.y
                    self.replies.append(b"\x1b[%d;%dR" % (y + 1, self.x + 1))
                else:
                    self._err(f"DSR {raw(0)}")
            elif f == "r":
                self._decstbm(raw(0), raw(1))
            elif f == "s":
                self._save_cursor()
            elif f == "u":
                self._restore_cursor()
            elif f == "t":
                pass  # window manipulation: no effect on the model
            else:
                self._err(f"CSI {pbuf}{f}")
        elif key in ("?h", "?l"):
            for v in flat:
                self._dec_mode(v, f == "h")
        elif key in ("?J", "?K"):  # selective erase without protected cells == erase
            (self._ed if f == "J" else self._el)(raw(0))
        elif key == "?n":
            if raw(0) == 6:
                self.replies.append(b"\x1b[?%d;%dR" % (self.y + 1, self.x + 1))
        elif key == ">c":
            self.replies.append(b"\x1b[>0;0;0c")
        elif key in (" q",):
            self.cursor_style = raw(0)
        elif key == "!p":
            self._amb("DECSTR")
            self.insert_mode = False
            self.modes[6] = False
            self.modes[25] = True
            self.top, self.bottom = 0, self.rows - 1
            self.pen_fg = self.pen_bg = None
            self.pen_flags = NOFLAGS
            self.g, self.gl = ["B"] * 4, 0
            self._saved[self.alt_screen] = None
        elif key == "?$p":
            v = raw(0)
            st = (1 if self.modes[v] else 2) if v in self.modes else 0
            self.replies.append(b"\x1b[?%d;%d$y" % (v, st))
        elif key in (">m", ">n", ">p", ">q", ">t", ">T", "?s", "?r", "?m", '"q', '"p', "$p", "?u", ">u", "<u", "=u",
                     "=c", "$|", "*|", "$}", "$~", " t", " u", "#{", "#}", "#p", "#q", "?S"):
            pass  # xterm / kitty settings with no effect on grid, cursor or the tracked modes
        else:
            self._err(f"CSI {private}{pbuf}{inter}{f}")

    # ------------------------------------------------------------------ modes
    def _dec_mode(self, v, on):
        if v not in self.modes:
            self._err(f"DEC private mode {v}")
            return
        if v in (47, 1047, 1049):
            if on:
                if v == 1049:
                    self._save_cursor()
                if not self.alt_screen:
                    self.grid = self.alt
                    if v == 1049:
                        for r in range(self.rows):
                            self.alt[r] = self._blank_row()
            else:
                if self.alt_screen:
                    if v == 1047:
                        for r in range(self.rows):
                            self.alt[r] = self._blank_row()
                    self.grid = self.main
                if v == 1049:
                    self._restore_cursor()
            self.pending_wrap = False
            self.modes[47] = self.modes[1047] = self.modes[1049] = False
            self.modes[v] = on
            return
        if v == 1048:
            (self._save_cursor if on else self._restore_cursor)()
            return
        if v == 3:
            self._amb("DECCOLM")
        self.modes[v] = on
        if v == 6:
            self._goto(0, 0)
        elif v == 7 and not on:
            self.pending_wrap = False
        elif v in MOUSE_MODES:
            for m in MOUSE_MODES:  # the protocols are mutually exclusive: last one set wins
                if m != v:
                    self.modes[m] = False

    # ------------------------------------------------------------------ SGR
    _FLAG = {1: "bold", 2: "dim", 3: "italic", 4: "underline", 5: "blink", 6: "blink", 7: "reverse", 8: "conceal",
             9: "strike"}
    _UNFLAG = {22: ("bold", "dim"), 23: ("italic",), 24: ("underline",), 25: ("blink",), 27: ("reverse",),
               28: ("conceal",), 29: ("strike",)}

    def _ext_colour(self, vals):
        """vals: the numbers after 38/48 -> (colour | 'bad' | None when incomplete, numbers consumed)"""
        if not vals:
            return None, 0
        kind = vals[0]
        if kind == 5:
            if len(vals) < 2:
                return None, len(vals)
            n = vals[1] or 0
            if n > 255:
                self._amb("palette index > 255")
                return "bad", 2
            return n, 2
        if kind == 2:
            if len(vals) < 4:
                return None, len(vals)
            rgb = tuple(v or 0 for v in vals[1:4])
            if max(rgb) > 255:
                self._amb("rgb component > 255")
                return "bad", 4
            return rgb, 4
        self._amb(f"extended colour kind {kind}")
        return "bad", 1

    def _sgr(self, params):
        if not params:
            params = [[0]]
        flags = set(self.pen_flags)
        i = 0
        while i < len(params):
            p = params[i]
            code = p[0] or 0
            i += 1
            if code in (38, 48, 58):
                if len(p) > 1:  # colon form: 38:5:n  38:2:r:g:b  38:2:<colourspace>:r:g:b
                    subs = p[1:]
                    if subs and subs[0] == 2 and len(subs) >= 5:
                        subs = [2, *subs[2:5]]
                    col, _ = self._ext_colour(subs)
                else:
                    vals = [q[0] for q in params[i : i + 4]]
                    col, used = self._ext_colour(vals)
                    i += used
                if col is None:
                    break
                if col != "bad":
                    if code == 38:
                        self.pen_fg = col
                    elif code == 48:
                        self.pen_bg = col
                continue
            if code == 0:
                flags.clear()
                self.pen_fg = self.pen_bg = None
                self.font = 0 if False else self.font
            elif code == 4 and len(p) > 1:
                (flags.discard if p[1] == 0 else flags.add)("underline")
            elif code in self._FLAG:
                flags.add(self._FLAG[code])
            elif code in self._UNFLAG:
                for fl in self._UNFLAG[code]:
                    flags.discard(fl)
            elif code == 21:
                self._amb("SGR 21")  # double underline (ECMA-48, xterm) or bold off (linux console)
                flags.add("underline")
            elif 30 <= code <= 37:
                self.pen_fg = code - 30
            elif code == 39:
                self.pen_fg = None
            elif 40 <= code <= 47:
                self.pen_bg = code - 40
            elif code == 49:
                self.pen_bg = None
            elif 90 <= code <= 97:
                self.pen_fg = code - 90 + 8
            elif 100 <= code <= 107:
                self.pen_bg = code - 100 + 8
            elif code == 10:
                self.font = 0
            elif code == 11:
                self.font = 1
            elif code in (12, 59, 53, 55):
                pass
            else:
                self._err(f"SGR {code}")
        self.pen_flags = frozenset(flags)


# =====================================================================================
# self-test: hand-written expectations for the trickier semantics


def _selftest():
    def mk(c, r, data, **kw):
        t = VT(c, r, strict=True, **kw)
        t.feed(data)
        return t

    def rows(t):
        return [t.row_text(r) for r in range(t.rows)]

    # pending wrap: the 5th char of a 5-col line leaves the cursor on the last column
    t = mk(5, 3, b"abcde")
    assert (t.cursor, t.pending_wrap, t.wrap_events) == ((4, 0), True, 0), (t.cursor, t.pending_wrap)
    t.feed(b"f")
    assert rows(t)[:2] == ["abcde", "f    "] and t.cursor == (1, 1) and t.wrap_events == 1
    # CR cancels the pending wrap; CUB counts from the last column
    assert rows(mk(5, 2, b"abcde\rX")) == ["Xbcde", "     "]
    t = mk(5, 2, b"abcde\x1b[2DX")
    assert rows(t)[0] == "abXde" and t.cursor == (3, 0)
    # CPR with a pending wrap reports the last column
    t = mk(5, 2, b"abcde\x1b[6n\x1b[5n\x1b[c")
    assert t.replies == [b"\x1b[1;5R", b"\x1b[0n", b"\x1b[?6c"], t.replies
    # EL at the right margin with pending wrap erases the last cell, and clears the flag
    t = mk(5, 2, b"abcde\x1b[KZ")
    assert rows(t)[0] == "abcdZ" and t.pending_wrap
    # wrap at the bottom scrolls, and the scrolled line goes to the scrollback
    t = mk(3, 2, b"abcdefg")
    assert rows(t) == ["def", "g  "] and t.scroll_events == 1 and t.wrap_events == 2
    assert ["".join(c.glyph for c in r) for r in t.scrollback] == ["abc"]
    # no autowrap: the last column is overwritten
    t = mk(3, 2, b"\x1b[?7labcde")
    assert rows(t) == ["abe", "   "] and t.cursor == (2, 0) and not t.pending_wrap
    # double width: two cells, wraps as a unit when only one column is left
    t = mk(4, 2, "ab中c".encode())
    assert [c.width for c in t.grid[0]] == [1, 1, 2, 0] and rows(t)[1] == "c   "
    t = mk(4, 2, "abc中".encode())
    assert rows(t) == ["abc ", "中  "] and t.cursor == (2, 1)
    # overwriting half of a wide glyph blanks the other half
    t = mk(4, 1, "中中\x1b[2GX".encode())
    assert rows(t) == [" X中"], rows(t)
    # combining mark joins the previous cell
    t = mk(4, 1, "éx".encode())
    assert t.grid[0][0].glyph == "é" and t.cursor == (2, 0)
    # IL / DL inside a scrolling region: rows outside the region never move
    base = b"A\r\nB\r\nC\r\nD\r\nE"
    t = mk(2, 5, base + b"\x1b[2;4r\x1b[3;2H\x1b[L")
    assert rows(t) == ["A ", "B ", "  ", "C ", "E "] and t.cursor == (0, 2), rows(t)
    t = mk(2, 5, base + b"\x1b[2;4r\x1b[2;1H\x1b[M")
    assert rows(t) == ["A ", "C ", "D ", "  ", "E "], rows(t)
    t = mk(2, 5, base + b"\x1b[2;4r\x1b[2;1H\x1b[9L")
    assert rows(t) == ["A ", "  ", "  ", "  ", "E "]
    t = mk(2, 5, base + b"\x1b[2;4r\x1b[5;1H\x1b[L\x1b[M")  # outside the region: ignored
    assert rows(t) == ["A ", "B ", "C ", "D ", "E "]
    t = mk(1, 3, b"A\r\nB\r\nC\x1b[1;1H\x1b[L")
    assert rows(t) == [" ", "A", "B"]
    # RI at the top of a region scrolls the region down; above the region it just moves
    t = mk(2, 5, base + b"\x1b[2;4r\x1b[2;1H\x1bM")
    assert rows(t) == ["A ", "  ", "B ", "C ", "E "] and t.cursor == (0, 1)
    t = mk(2, 5, base + b"\x1b[2;4r\x1b[1;1H\x1bM")
    assert rows(t) == ["A ", "B ", "C ", "D ", "E "] and t.cursor == (0, 0)
    # LF at the bottom of a region scrolls only the region; below it never scrolls
    t = mk(2, 5, base + b"\x1b[2;4r\x1b[4;1H\n")
    assert rows(t) == ["A ", "C ", "D ", "  ", "E "] and t.cursor == (0, 3) and not t.scrollback
    t = mk(2, 5, base + b"\x1b[2;4r\x1b[5;1H\n\n")
    assert rows(t) == ["A ", "B ", "C ", "D ", "E "] and t.cursor == (0, 4)
    # DECSTBM homes the cursor; CUU/CUD stop at the margins when starting inside
    t = mk(2, 5, b"\x1b[2;4r\x1b[3;1H\x1b[9A")
    assert t.cursor == (0, 1)
    t.feed(b"\x1b[9B")
    assert t.cursor == (0, 3)
    t.feed(b"\x1b[5;1H\x1b[9A")
    assert t.cursor == (0, 1)
    t.feed(b"\x1b[1;1H\x1b[9B")
    assert t.cursor == (0, 3)
    # invalid regions are ignored
    t = mk(2, 5, b"\x1b[4;2r")
    assert (t.top, t.bottom) == (0, 4)
    # origin mode
    t = mk(4, 5, b"\x1b[2;4r\x1b[?6h\x1b[1;1HX\x1b[9;9H\x1b[6n")
    assert rows(t)[1] == "X   " and t.cursor == (3, 3) and t.replies == [b"\x1b[3;4R"]
    # ICH at the margin: characters pushed past the right edge are lost
    t = mk(5, 1, b"abcde\x1b[1;4H\x1b[@")
    assert rows(t) == ["abc d"] and t.cursor == (3, 0)
    t = mk(5, 1, b"abcde\x1b[1;2H\x1b[99@")
    assert rows(t) == ["a    "]
    t = mk(5, 1, b"abcde\x1b[@")  # pending wrap: inserts at the last column
    assert rows(t) == ["abcd "] and not t.pending_wrap
    # DCH / ECH
    assert rows(mk(5, 1, b"abcde\x1b[1;2H\x1b[2P")) == ["ade  "]
    assert rows(mk(5, 1, b"abcde\x1b[1;2H\x1b[2X")) == ["a  de"]
    # IRM
    assert rows(mk(5, 1, b"abcde\x1b[1;2H\x1b[4hXY\x1b[4lZ")) == ["aXYZc"]
    # BCE: erased cells take the current background but no other attribute
    t = mk(4, 2, b"\x1b[1;31;44mab\x1b[K\x1b[2;1H\x1b[42m\x1b[2K")
    assert t.grid[0][0] == Cell("a", 1, 4, frozenset({"bold"}), 1)
    assert t.grid[0][2] == Cell(" ", None, 4, NOFLAGS, 1) and t.grid[1][3].bg == 2
    t = mk(4, 2, b"\x1b[44m\x1b[2J\n\n", bce=False)
    assert all(c.bg is None for r in t.grid for c in r)
    t = mk(4, 2, b"\x1b[44m\x1b[2;1H\n")  # lines scrolled in are erased lines
    assert t.grid[1][0].bg == 4
    t = mk(4, 1, b"abcd\x1b[41m\x1b[1;1H\x1b[2P")
    assert [c.bg for c in t.grid[0]] == [None, None, 1, 1]
    # ED variants
    t = mk(3, 3, b"abc\r\ndef\r\nghi\x1b[2;2H\x1b[J")
    assert rows(t) == ["abc", "d  ", "   "]
    t = mk(3, 3, b"abc\r\ndef\r\nghi\x1b[2;2H\x1b[1J")
    assert rows(t) == ["   ", "  f", "ghi"] and t.cursor == (1, 1)
    # SGR forms
    t = mk(8, 1, b"\x1b[38;5;200;48;2;1;2;3ma\x1b[38:2:9:8:7mb\x1b[38:2::9:8:7;48:5:17mc\x1b[0;92;103md\x1b[39;49;7me")
    g = t.grid[0]
    assert (g[0].fg, g[0].bg) == (200, (1, 2, 3)) and g[1].fg == (9, 8, 7) and (g[2].fg, g[2].bg) == ((9, 8, 7), 17)
    assert (g[3].fg, g[3].bg) == (10, 11) and (g[4].fg, g[4].bg, g[4].flags) == (None, None, frozenset({"reverse"}))
    t = mk(4, 1, b"\x1b[1;2;3;4;5;7;9ma\x1b[22;23;24;25;27;29mb")
    assert t.grid[0][0].flags == {"bold", "dim", "italic", "underline", "blink", "reverse", "strike"}
    assert t.grid[0][1].flags == NOFLAGS
    # charsets
    t = mk(6, 1, b"\x1b)0q\x0eqx\x0fq\x1b(0l\x1b(Bl")
    assert rows(t) == ["q─│q┌l"]
    # DECSC / DECRC
    t = mk(5, 2, b"\x1b[31mab\x1b7\x1b[0m\r\nxyz\x1b8c")
    assert rows(t) == ["abc  ", "xyz  "] and t.grid[0][2].fg == 1
    # alternate screen 1049
    t = mk(3, 2, b"ab\x1b[?1049hXY\x1b[?1049lc")
    assert rows(t) == ["abc", "   "] and not t.alt_screen
    t = mk(3, 2, b"ab\x1b[?1049h\x1b[HXY")  # 1049 does not move the cursor by itself
    assert rows(t) == ["XY ", "   "] and t.alt_screen and not t.is_initial_modes()
    # modes
    t = mk(3, 2, b"\x1b[?1000h\x1b[?1006h\x1b[?2004h\x1b[?1004h\x1b[?25l\x1b=")
    assert t.mouse == {1000} and t.mouse_sgr and t.bracketed_paste and t.focus_events and not t.cursor_visible
    t.feed(b"\x1b[?1000l\x1b[?1006l\x1b[?2004l\x1b[?1004l\x1b[?25h\x1b>")
    assert t.is_initial_modes()
    # OSC terminators, chunked feeding, C1 CSI
    t = VT(10, 1, strict=True)
    for b in b"\x1b]0;ti\xc3\xa9\x07a\x1b]2;x\x1b\\b\xc2\x9b3Gc":
        t.feed(bytes([b]))
    assert t.osc_log == ["0;tié", "2;x"] and t.title == "x" and rows(t) == ["abc       "], rows(t)
    # invalid UTF-8 -> replacement characters, never an exception
    t = mk(6, 1, b"a\xffb\xe2\x82c")
    assert rows(t) == ["a�b�c "]
    # SU / SD / tabs / REP
    t = mk(2, 3, b"A\r\nB\r\nC\x1b[S")
    assert rows(t) == ["B ", "C ", "  "]
    t.feed(b"\x1b[2T")
    assert rows(t) == ["  ", "  ", "B "]
    t = mk(20, 1, b"\ta\tb\x1b[3b")
    assert t.row_text(0) == "        a       bbbb"
    # strict mode raises on unknown sequences; non-strict records them
    try:
        mk(3, 1, b"\x1b[?4242h")
    except VTError:
        pass
    else:
        raise AssertionError("strict mode did not raise")
    t = VT(3, 1)
    t.feed(b"\x1b[?4242h\x1b[5;5;5y")
    assert len(t.errors) == 2
    # resize keeps content and clamps
    t = mk(4, 3, b"ab\r\ncd\r\nef")
    t.resize(3, 2)
    assert rows(t) == ["cd ", "ef "] and t.cursor == (2, 1)
    t.resize(5, 3)
    assert rows(t) == ["cd   ", "ef   ", "     "] and (t.top, t.bottom) == (0, 2)
    print("vtmodel self-test: ok")


if __name__ == "__main__":
    _selftest()
