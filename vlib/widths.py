"""Independent column-width / character-boundary oracle per encoding mode.

Does not import urwid.str_util.  Trusted base: the ``wcwidth`` table (the "Unicode width table"
the properties name) and Python's own codecs.

mode is one of "utf8", "wide", "narrow" (urwid's three byte-encoding modes).
"""
from __future__ import annotations

import functools

import wcwidth as _wc


@functools.lru_cache(maxsize=None)
def char_width(ch: str) -> int:
    w = _wc.wcwidth(ch)
    return w if w > 0 else 0


def _utf8_char_at(b: bytes, i: int):
    """(end, str) of the valid UTF-8 character starting at i, or None."""
    b0 = b[i]
    if b0 < 0x80:
        return i + 1, chr(b0)
    if 0xC2 <= b0 <= 0xDF:
        n = 2
    elif 0xE0 <= b0 <= 0xEF:
        n = 3
    elif 0xF0 <= b0 <= 0xF4:
        n = 4
    else:
        return None
    chunk = bytes(b[i : i + n])
    if len(chunk) < n:
        return None
    try:
        s = chunk.decode("utf-8")
    except UnicodeDecodeError:
        return None
    return i + n, s


def is_dbcs_lead(v: int) -> bool:
    return v >= 0x81


def chars(text, mode: str):
    """List of (start, end, width) characters of text (str or bytes) under mode.

    bytes/utf8: valid sequences are one character; any byte that does not start a valid
    sequence is one 1-column character (a terminal shows a replacement glyph).
    bytes/wide: a byte >= 0x81 followed by another byte >= 0x40 forms one 2-column character.
    bytes/narrow: one byte, one column.
    str: code points measured with the wcwidth table.
    """
    out = []
    if isinstance(text, str):
        for i, ch in enumerate(text):
            out.append((i, i + 1, char_width(ch)))
        return out
    b = bytes(text)
    n = len(b)
    i = 0
    if mode == "utf8":
        while i < n:
            r = _utf8_char_at(b, i)
            if r is None:
                out.append((i, i + 1, 1))
                i += 1
            else:
                out.append((i, r[0], char_width(r[1])))
                i = r[0]
    elif mode == "wide":
        while i < n:
            if b[i] >= 0x81 and i + 1 < n and b[i + 1] >= 0x40:
                out.append((i, i + 2, 2))
                i += 2
            else:
                out.append((i, i + 1, 1))
                i += 1
    else:
        out = [(i, i + 1, 1) for i in range(n)]
    return out


def width(text, mode: str) -> int:
    return sum(c[2] for c in chars(text, mode))


def boundaries(text, mode: str):
    cs = chars(text, mode)
    return [c[0] for c in cs] + [len(text)]


def cells(text, mode: str):
    """Expand a row into per-column cells: list of (chunk, cont) where cont=True marks the
    second column of a double-width character.  Zero-width characters are appended to the
    preceding cell's chunk (or form a leading zero-width chunk attached to the next cell)."""
    out = []
    pending = text[:0]
    for s, e, w in chars(text, mode):
        ch = text[s:e]
        if w == 0:
            if out:
                # attach to the last non-continuation cell
                k = len(out) - 1
                while k > 0 and out[k][1]:
                    k -= 1
                out[k] = (out[k][0] + ch, out[k][1])
            else:
                pending = pending + ch
            continue
        out.append((pending + ch, False))
        pending = text[:0]
        if w == 2:
            out.append((text[:0], True))
    return out, pending


MODES = {"utf-8": "utf8", "utf8": "utf8", "euc-jp": "wide", "gbk": "wide", "big5": "wide",
         "euc-kr": "wide", "uhc": "wide", "iso8859-1": "narrow", "ascii": "narrow", "latin-1": "narrow"}


def mode_of(encoding: str) -> str:
    return MODES[encoding.lower()]


def use_encoding(encoding: str):
    """Set urwid's global encoding and drop the canvas cache (canvases hold encoded text).

    urwid's own memoised helpers are deliberately NOT cleared: set_encoding() is public API, so anything the
    library remembers across an encoding switch has to be keyed by the encoding itself (a cache that is not
    would be hidden by clearing it here - seeded changes C02-7 and C03-7 are of that kind)."""
    import urwid

    urwid.util.set_encoding(encoding)
    urwid.CanvasCache.clear()
    return mode_of(encoding)
